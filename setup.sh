#!/bin/sh
# Offline setup: compile the simulator once (warms the Go build cache) from the
# files on disk, with the hooks on and off.
export GOFLAGS=-mod=mod GOPROXY=off GOSUMDB=off GOTOOLCHAIN=local
cd "$(dirname "$0")" || exit 2
mkdir -p bin evidence
go build -tags verif -o bin/geomsim ./cmd/geomsim || exit 2
(cd /repo && go build . ./index/rtree ./route ./proj ./encoding/osm ./encoding/wkb ./encoding/hex ./encoding/geojson) || exit 2
echo "setup ok: $(bin/geomsim props | tr '\n' ' ')"
