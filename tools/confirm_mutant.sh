#!/bin/sh
# usage: confirm_mutant.sh <src dir with patch.diff + demo_test.go> <seeded id> <property> <package dir for the demo> [needs text]
# Confirms in a scratch worktree of /repo HEAD: suite passes with the change,
# demo fails with it and passes without it; then stores it under /verif/seeded/<id>/.
src="$1"; id="$2"; prop="$3"; pkg="$4"; needs="$5"
export GOFLAGS=-mod=mod GOPROXY=off GOSUMDB=off GOTOOLCHAIN=local
wt=/tmp/confirm-wt-$$
git -C /repo worktree add -q --detach "$wt" HEAD || exit 9
cleanup() { git -C /repo worktree remove --force "$wt"; }
trap cleanup EXIT
cd "$wt" || exit 9
if ! git apply "$src/patch.diff"; then echo "RESULT $id: patch does not apply to HEAD"; exit 1; fi
suite=$(go test -vet=off -count=1 . ./index/... ./route/... ./encoding/... ./proj/... ./op/... ./test/... 2>&1 | grep -v "^ok\|no test files" | head -5)
demo=$(ls "$src" | grep -E '_test\.go$' | head -1)
cp "$src/$demo" "$wt/$pkg/zz_demo_test.go"
go test -vet=off -count=1 "./$pkg" > /tmp/confirm.$$.with 2>&1; with=$?
git apply -R "$src/patch.diff"
go test -vet=off -count=1 "./$pkg" > /tmp/confirm.$$.without 2>&1; without=$?
echo "RESULT $id: suite_with_change=$( [ -z "$suite" ] && echo pass || echo "FAIL: $suite") demo_with_change=$( [ $with -ne 0 ] && echo fails || echo PASSES) demo_without=$( [ $without -eq 0 ] && echo passes || echo FAILS)"
if [ -z "$suite" ] && [ $with -ne 0 ] && [ $without -eq 0 ]; then
  d=/verif/seeded/$id; mkdir -p "$d"
  cp "$src/patch.diff" "$d/patch.diff"; cp "$src/$demo" "$d/demo_test.go"; [ -f "$src/notes.md" ] && cp "$src/notes.md" "$d/notes.md"
  python3 - "$d" "$id" "$prop" "$pkg" "$needs" <<'PY'
import json,sys,subprocess
d,id_,prop,pkg,needs=sys.argv[1:6]
head=subprocess.check_output(['git','-C','/repo','rev-parse','--short','HEAD']).decode().strip()
json.dump({"id":id_,"breaks_property":prop,"needs_to_manifest":needs,"demo":"demo_test.go (copy into "+pkg+"/)",
 "base_commit":head,
 "confirmed":{"how":"tools/confirm_mutant.sh in a scratch worktree of /repo HEAD (removed afterwards)",
   "suite_with_change":"pass (go test -vet=off -count=1 . ./index/... ./route/... ./encoding/... ./proj/... ./op/... ./test/...)",
   "demo_with_change":"fails","demo_without_change":"passes"},
 "detected_by":None},open(d+'/meta.json','w'),indent=1)
PY
  echo "stored $d"
fi
rm -f /tmp/confirm.$$.with /tmp/confirm.$$.without
