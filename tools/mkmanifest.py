#!/usr/bin/env python3
"""Regenerates /verif/MANIFEST.json from the tables below and validates it."""
import json, subprocess, sys

NA_PURE = {
 "C01": "polygon boolean ops: pure function of two polygon values (clipper call + ring re-closing); no schedule, clock, fault or history for a simulator to own - deciding it means input generation, which is not deterministic simulation",
 "C02": "Within: pure arithmetic predicate on a point and a polygon; inputs only",
 "C03": "area/centroid/length/distance/buffer: pure numeric functions of their input",
 "C04": "bounds and vertex enumeration: Points() closure is local to its caller, Extend mutates only its receiver; no shared state, schedule or fault",
 "C05": "WKB/hex losslessness and byte layout: function of geometry and byte order over in-memory buffers; the property promises nothing under stream faults (stream-fault behaviour of the same readers is decided under C07)",
 "C06": "GeoJSON round trip: []byte in, value out; no stream, no state",
 "C08": "projection invertibility: pure numeric; its 'configurations' are parameter values, i.e. inputs",
 "C09": "agreement with proj4js/reference formulas: pure numeric comparison against an external oracle",
 "C13": "Simplify: pure function; the termination clause is about inputs, not schedules or faults",
 "C14": "Clip: pure function (clipper call)",
 "C15": "Similar: pure predicate",
 "C16": "shapefile round trip: real file I/O but through go-shp's direct os.Create/Open (no seam for a simulated disk) and the property promises nothing under disk faults or before Close; on a fault-free disk it is a function of the record sequence",
 "C17": "WKT output: pure function to a byte slice",
 "C20": "CRS notation equivalence: pure parsing + numeric comparison; registry written only at package init (the history-flavoured aspect, shared registry pointers surviving use, is exercised by C10's canary)",
}

PENDING = {
}

CHECKS = {
 "C11": dict(engine="sim-hist-rtree", cat="exploration", ref="DESIGN.md §6",
   text="Seeded search over insert/delete/query histories (<=400 ops, deep-churn histories at 50-130 objects, one in 300 up to 7000 ops; phases that drain the tree to empty and refill it; branching parameters up to 140; duplicates incl. the same object stored twice, coincident/degenerate boxes, grid spacings from 0.1 to 1000; one history in twelve insert-only over slice-typed geometries) executed against the real index/rtree and a brute-force multiset model; Size, Delete results, 'absent delete changes nothing', SearchIntersect multiset equality and the balance/envelope/fan-out invariants (read through the verif walk hook) are checked after every operation. Sampling, not enumeration: a clean batch is evidence over the reported number of distinct histories and tree shapes.",
   note="Trusted: the multiset model and independently written box predicates; the read-only walk hook. One client, no fault kinds exist for this component (stated in DESIGN §6); objects restricted to comparable values with finite valid boxes as the property states.",
   technique="deterministic simulation: seeded operation histories vs executable reference model, invariants after every step, tape-minimised replay"),
 "C12": dict(engine="sim-hist-rtree", cat="exploration", ref="DESIGN.md §6",
   text="Same seeded histories as C11 with NearestNeighbor / NearestNeighbors(k) queries interleaved after mutations; answers compared by distance (never identity) with a linear scan, and held across later operations (an earlier answer must stay what it was): k=1 minimum distance, k>1 exactly min(k,Size) stored objects, non-decreasing, distance multiset equal to the k smallest, nil tail.",
   note="Trusted: the oracle's own distance function (hypot of per-axis gaps) with 1e-12 relative tolerance for ties; runs in which a C11-side failure (panic in Insert/Delete, wrong Delete result) occurs are abandoned and counted, since C11's check reports them.",
   technique="deterministic simulation: seeded operation histories vs brute-force reference, tape-minimised replay"),
 "C19": dict(engine="sim-hist-route", cat="exploration", ref="DESIGN.md §7",
   text="Seeded search over AddLink/ShortestRoute histories (<=40 links on a small lattice with merged, 1-ulp-perturbed and distinct end points, now and then a link whose two new end points lie 1 ulp apart, random link geometries and speeds, both MinimizeOptions, queries interleaved with AddLinks; one run in ten with up to 260 links over corridor- or grid-shaped lattices of up to ~270 nodes and per-axis coordinate scales from 1e-3 to 1e6; one query in five runs as a PAIR of ShortestRoute calls interleaved by the token scheduler at every neighbour-list hand-over and, on small networks, between any two statements (yield points inserted at build time by tools/hookfill), with every map- or slice-typed struct field that both calls touch, one of them writing, reported as a data race; hubs of 255-514 links, links of up to 1200 vertices, rare runs of 66000 queries) on the real route package, its rtree and gonum's A*; the simulator owns the order in which map-backed neighbour lists reach A*. Every answer is checked against a Dijkstra model: valid chain from the nearest start node to the nearest end node, reported totals equal the sums over the returned links, cost minimal within 1e-9 relative, empty route when unreachable.",
   note="Trusted: the oracle's Dijkstra and polyline lengths. Query points keep a margin so that the nearest node is unique; equal-cost alternatives are accepted. No fault kinds exist for this component; the neighbour order is the only nondeterminism and is drawn from the tape through the add-only verif hook in Network.From/Nodes.",
   technique="deterministic simulation: seeded AddLink/query histories with simulator-owned map order and token-scheduled overlapping queries vs Dijkstra reference, shared-access check, tape-minimised replay"),
 "C10": dict(engine="sim-hist-proj", cat="exploration", ref="DESIGN.md §5",
   text="Seeded search over histories of 2-4 interleaved simulated clients building and calling transformers over a shared pool of spatial references (registry names = shared pointers, 3-/7-parameter datums needing the WGS84 hop, non-default axis orders, +pm, +units, +nadgrids), each call compared bit-for-bit with a fresh world (same definitions parsed anew, new transformer, single call), canary transformations over the process-global registry re-evaluated after every run; Geom.Transform on all eight geometry types (collections nested up to 40 levels, closed rings, signed zeros, huge values) with a sign-of-zero-sensitive stub transformer, optionally re-entrant, wrapped by a fault injector failing on a tape-chosen vertex: same type/nesting, vertex i = t(vertex i), input untouched, nil = identity, the transformer's error returned, no panic.",
   note="Trusted: the fresh-world oracle runs the same real code (so it cannot see errors that are history-independent - those are C08/C09/C20 territory); pool members are distinct catalogue entries (two separately parsed copies of one definition flip between the Equal shortcut and inverse-forward after use, a 1e-7 m effect the property does not state); panics inside NewTransform itself are outside the statement and only counted; transformers are interleaved, never run in parallel.",
   technique="deterministic simulation: seeded interleaved client histories vs fresh-world reference, error injection through the Transformer seam, tape-minimised replay"),
 "C07": dict(engine="sim-store", cat="fault_enumeration", ref="DESIGN.md §4",
   text="Per stored item (tape-generated geometry serialised by an independent writer that knows every field offset; its hex and GeoJSON forms; geojson.Geometry values with arbitrarily shaped coordinates; adversarial frames up to the 64 KiB bound; random strings) the storage-fault set is ENUMERATED: truncation at every offset, every single-bit flip of small items and of all header/count/type bytes of large ones, every count field overwritten with 13 values up to 2^32-1, every byte-order byte with all 256 values, every type code with 40 codes, zeroed tails, block splices; and for the io.Reader entry point an I/O error and an early EOF at every offset under several chunking schedules incl. (0,nil) and (n,EOF) reads. Every decode runs under an allocation meter (<=1024*len+4MiB), panic capture, result-shape and re-encode/decode oracles; legal reader schedules must not change the result. Items and sampled multi-fault combinations come from the seed; the per-item fault set is exhaustive as stated, the item space is sampled.",
   note="Trusted: the independent serializer/layout, the allocation meter (runtime/metrics, single goroutine), the NaN-aware equality. Workers run under ulimit -v 4 GiB; an unsurvivable allocation kills the worker and is attributed to the journalled run (class process-crash, seed-only replay). Success on truncated/error-interrupted input is only counted: the statement demands a geometry or an error, not rejection. Failing allocations/syscalls inside the Go runtime cannot be injected.",
   technique="deterministic simulation of a faulty store/stream: enumerated storage and reader faults per seeded item, allocation meter, tape-minimised replay"),
 "C18": dict(engine="sim-osm", cat="exploration", ref="DESIGN.md §3",
   text="The real ExtractXML (worker pool of real goroutines, channel, RWMutex-guarded maps, pass loop, osmxml scanner, errgroup) runs under a token-passing scheduler that takes every scheduling decision at every lock acquisition, channel operation, spawn and join from the seed (strategies: round-robin, uniform, sticky, PCT priorities, long worker stalls, starve-one; 1-8 workers), over a simulated file (legal short and (0,nil) reads, an I/O error at byte k of pass p, a failing Seek) and a context cancelled at a chosen scheduler step. Seeded documents (<=41 elements, shared nodes, closed ways, ways without nodes, dangling refs with ids coinciding across types, relations of relations with cycles, any element order; one run in 25 as PBF through ExtractPBF) and keep functions (tags, bounds, all). The build step announces every Lock/RLock of encoding/osm that carries no hook (tools/hookfill on a scratch copy), so unannounced lock windows are schedulable too, and inserts plain yield points between all statements, live in one run in six (statement-level interleavings of unsynchronised code). RWMutex writer preference is modelled (a writer that has called Lock blocks later readers), so read-lock order inversions deadlock in simulation as they do in reality. The same build step announces every lock release and every access to a map-typed struct field (and to local maps shared with a function literal); the runtime keeps vector clocks over spawn, join, lock release->acquisition, send->receive and close, and reports two accesses to one map, one of them a write, that nothing orders as a data race (in a real execution: a fatal concurrent map access). Oracle: the sequential least-fixpoint model (key sets and stored values), Check()==nil iff nothing dangles, Filter by tags/all equals the model's filter and is idempotent, termination without deadlock within 2|doc|+2 passes; under an injected fault only an error or the exact model result with a nil error is accepted.",
   note="Trusted: the scheduler's yield placement is complete for lock-protected code; unprotected accesses are found by the happens-before tracking for maps only (other shared variables are not followed; the tracker switches itself off, and says so in a probe, when a release was not announced or the package uses sync/atomic, sync.Once/Map/Cond/WaitGroup/Pool, select or extra goroutines); osmxml/encoding-xml are synchronous; for PBF runs osmpbf's own decoder goroutines are unsimulated (deterministic output; such runs get no injected read error or cancellation); effects below statement granularity (torn/reordered memory accesses, the runtime's concurrent-map-write detection) are invisible to a token scheduler; Filter's own map order is not behind a seam (evaluated 4x per run, 64x in replay); CountTags and Geom are not part of the statement and are not checked. Workers left behind by extract's error returns are counted, not reported (C18 is silent about them).",
   technique="deterministic simulation: token-passing scheduler over real goroutines (seeded interleavings, stalls), simulated file/seek faults and cancellation, happens-before (vector-clock) check of shared-map accesses, sequential reference model, tape-minimised replay"),
}

HOOK_COMMITS = ["d39f006", "035e079", "6cff694", "3c5fbe4", "85aa2e6", "3e5ac0a", "e9ba2de", "7dcba52", "b06233f", "d12a08c"]

def main():
    checks = []
    for pid in sorted(CHECKS):
        c = CHECKS[pid]
        checks.append({
            "property_id": pid,
            "quick_cmd": f"./check.sh {pid} quick",
            "thorough_cmd": f"./check.sh {pid} thorough",
            "evidence_file": f"/verif/evidence/{pid}.json",
            "replay_cmd_template": "bin/geomsim replay {path}",
            "engine": c["engine"],
            "level_claimed": {"category": c["cat"], "text": c["text"], "design_ref": c["ref"]},
            "level_note": c["note"],
            "technique": c["technique"],
        })
    na = [{"property_id": k, "reason": v} for k, v in sorted({**NA_PURE, **PENDING}.items())]
    engines = {}
    for pid, c in CHECKS.items():
        engines.setdefault(c["engine"], []).append(pid)
    m = {
        "version": 1,
        "setup_cmd": "./setup.sh",
        "hooks": {
            "guard": "verif (Go build tag)",
            "enable": "go build -tags verif (check.sh builds /verif/cmd/geomsim against /repo through the replace directive in /verif/go.mod; for C18 and C19 against a scratch copy of /repo completed by tools/hookfill, through -modfile)",
            "baseline_off_cmd": "/verif/baseline_off.sh",
            "source_commits": HOOK_COMMITS,
            "add_only": True,
        },
        "engines": [{"name": n, "path": "/verif/engines", "serves_properties": sorted(p), "kind_free_text": "seeded deterministic simulation (choice tape, reference model, tape shrinker, supervisor + 16 worker processes)"} for n, p in sorted(engines.items())],
        "checks": checks,
        "not_applicable": na,
        "notes": "One binary (cmd/geomsim) serves every check: `run` supervises 16 worker processes over disjoint run indices derived from VERIF_SEED; every decision of a run is drawn from one choice tape; violations are minimised, written to /verif/replays/<id>/ and re-executed in a fresh process before a VIOLATION line is printed. Exit 2 = build or simulator trouble, never a violation. Known findings: /verif/known_findings.json.",
    }
    json.dump(m, open("/verif/MANIFEST.json", "w"), indent=1)
    schema = json.load(open("/root/.vp/MANIFEST.schema.json"))
    try:
        import jsonschema
        jsonschema.validate(m, schema)
        print("MANIFEST.json valid;", len(checks), "checks,", len(na), "not applicable")
    except ImportError:
        print("jsonschema not importable; written without validation")
    ids = {c["property_id"] for c in checks} | {n["property_id"] for n in na}
    want = {json.loads(l)["id"] for l in open("/verif/properties.jsonl")}
    assert ids == want, (want - ids, ids - want)

main()
