#!/bin/sh
# Runs every registered check on /repo as it is (must be clean) and leaves the
# evidence files behind. usage: run_all.sh [quick|thorough]
tier="${1:-quick}"
if [ -n "$(git -C /repo status --porcelain)" ]; then echo "/repo not clean"; exit 9; fi
rc=0
for p in C07 C10 C11 C12 C18 C19; do
  /verif/check.sh $p $tier > /tmp/run_all.$p.log 2>&1; c=$?
  echo "$p exit=$c $(grep -E 'runs,|sim steps' /tmp/run_all.$p.log | head -1 | cut -c1-160)"
  grep -E "^VIOLATION|^KNOWN-FINDING|TROUBLE" /tmp/run_all.$p.log | head -5
  [ $c -ne 0 ] && rc=1
  rm -f /tmp/run_all.$p.log
done
exit $rc
