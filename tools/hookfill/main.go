// hookfill makes the lock announcements of encoding/osm complete: in a scratch
// copy of the repository it inserts simBeforeLockAny(&x, write) before every
// statement x.Lock() / x.RLock() that is not already preceded by one of the
// announcement calls. The simulator's scheduler can only pass the token at
// announced operations; a lock taken without announcement would make the span
// up to the next announcement atomic (hiding check-then-act races around it) or
// block for real while holding the token. On a tree whose hooks are complete
// the pass inserts no announcement. It also inserts a plain scheduling point
// (simYield) before every other statement of the package: in the runs whose
// tape switches "fine-grained" mode on, the scheduler may then interleave the
// workers between any two statements, which exposes check-then-act sequences
// on shared state that no lock protects.
//
//	hookfill <repo> <scratch-repo>
package main

import (
	"bytes"
	"fmt"
	"go/ast"
	"go/format"
	"go/parser"
	"go/token"
	"os"
	"os/exec"
	"path/filepath"
	"sort"
	"strings"
)

func main() {
	if len(os.Args) != 3 {
		fmt.Fprintln(os.Stderr, "usage: hookfill <repo> <scratch-repo>")
		os.Exit(2)
	}
	src, dst := os.Args[1], os.Args[2]
	if err := os.MkdirAll(dst, 0o755); err != nil {
		fail(err)
	}
	// copy the working tree (without .git)
	cmd := exec.Command("rsync", "-a", "--delete", "--exclude", ".git", src+"/", dst+"/")
	if out, err := cmd.CombinedOutput(); err != nil {
		fail(fmt.Errorf("rsync: %v: %s", err, out))
	}
	total := 0
	// encoding/osm: lock announcements and statement-level yields;
	// route: statement-level yields only (the package has no locks and no
	// generic lock hook)
	for _, pkg := range []struct {
		dir      string
		name     string
		locks    bool // announce Lock/RLock and releases
		accesses bool // announce shared-map accesses
		slices   bool // follow slice-typed struct fields too
	}{{filepath.Join("encoding", "osm"), "osm", true, true, false}, {"route", "route", false, true, true}} {
		announceLocks = pkg.locks
		files, _ := filepath.Glob(filepath.Join(dst, pkg.dir, "*.go"))
		trace, traceLocks = pkg.accesses, pkg.locks
		mapFields, pureFuncs, pkgTypes, imports, unknownSync = map[string]bool{}, map[string]bool{}, map[string]bool{}, map[string]string{}, nil
		sliceFields, followSlices = map[string]bool{}, pkg.slices
		usesPool, yields = false, true
		if trace {
			if err := survey(files); err != nil {
				fail(err)
			}
			if usesPool {
				// what sync.Pool hands out (and whether it calls New) depends on
				// the processor a goroutine happens to run on: a yield point in
				// code reached through it would make schedules irreproducible
				yields = false
				fmt.Printf("hookfill: %s: no statement-level yield points: the package uses sync.Pool\n", pkg.name)
			}
			if len(unknownSync) > 0 && pkg.locks {
				note := "constructs the happens-before tracking does not cover: " + strings.Join(unknownSync, "; ")
				gen := fmt.Sprintf("//go:build verif\n// +build verif\n\npackage %s\n\nfunc init() { SimFillInfo = %q }\n", pkg.name, note)
				if err := os.WriteFile(filepath.Join(dst, pkg.dir, "sim_fill.go"), []byte(gen), 0o644); err != nil {
					fail(err)
				}
				fmt.Println("hookfill:", note)
			}
			if !pkg.locks {
				// a package whose synchronisation is not modelled at all: the
				// access check assumes there is none between overlapping calls.
				// Any use of sync, sync/atomic, channels or goroutines (a
				// sync.Pool handing scratch storage from one call to the next,
				// say) would order accesses in ways the check cannot know:
				// announce nothing then.
				for name, path := range imports {
					if path == "sync" || path == "sync/atomic" || path == "golang.org/x/sync/errgroup" {
						unknownSync = append(unknownSync, "import of "+path+" as "+name)
					}
				}
				if len(unknownSync) > 0 {
					sort.Strings(unknownSync)
					fmt.Printf("hookfill: %s: no accesses announced: the package synchronises (%s) and that is not modelled\n", pkg.name, strings.Join(unknownSync, "; "))
					trace = false
				}
			}
			fmt.Printf("hookfill: %s: monitored map fields: %s\n", pkg.name, strings.Join(sortedKeys(mapFields), " "))
			if followSlices {
				fmt.Printf("hookfill: %s: monitored slice fields: %s\n", pkg.name, strings.Join(sortedKeys(sliceFields), " "))
			}
		}
		for _, f := range files {
			base := filepath.Base(f)
			if strings.HasSuffix(base, "_test.go") || base == "sim_on.go" || base == "sim_off.go" {
				continue
			}
			n, err := fill(f)
			if err != nil {
				fail(fmt.Errorf("%s: %v", f, err))
			}
			if n > 0 {
				fmt.Printf("hookfill: %s: %d unannounced lock acquisition(s) announced\n", base, n)
			}
			total += n
		}
	}
	fmt.Printf("hookfill: %d announcement(s) inserted\n", total)
	fmt.Printf("hookfill: %d statement-level yield points inserted\n", yieldsInserted)
	fmt.Printf("hookfill: %d lock releases and %d shared-map accesses announced\n", releasesInserted, accessesInserted)
}

func fail(err error) {
	fmt.Fprintln(os.Stderr, "hookfill:", err)
	os.Exit(2)
}

func isAnnouncement(s ast.Stmt) bool {
	es, ok := s.(*ast.ExprStmt)
	if !ok {
		return false
	}
	call, ok := es.X.(*ast.CallExpr)
	if !ok {
		return false
	}
	id, ok := call.Fun.(*ast.Ident)
	return ok && (id.Name == "simBeforeRW" || id.Name == "simBeforeMutex" || id.Name == "simBeforeLockAny")
}

// lockCall returns the receiver expression and whether it is a write lock when
// s is a statement of the form x.Lock() or x.RLock().
func lockCall(s ast.Stmt) (ast.Expr, bool, bool) {
	es, ok := s.(*ast.ExprStmt)
	if !ok {
		return nil, false, false
	}
	call, ok := es.X.(*ast.CallExpr)
	if !ok || len(call.Args) != 0 {
		return nil, false, false
	}
	sel, ok := call.Fun.(*ast.SelectorExpr)
	if !ok {
		return nil, false, false
	}
	switch sel.Sel.Name {
	case "Lock":
		return sel.X, true, true
	case "RLock":
		return sel.X, false, true
	}
	return nil, false, false
}

var announceLocks = true
var yields = true
var usesPool bool
var yieldsInserted int

func fill(path string) (int, error) {
	fset := token.NewFileSet()
	file, err := parser.ParseFile(fset, path, nil, parser.ParseComments)
	if err != nil {
		return 0, err
	}
	inserted := 0
	captured = map[*ast.Object]bool{}
	if trace && traceLocks {
		findCaptured(file)
	}
	yield := func() ast.Stmt {
		return &ast.ExprStmt{X: &ast.CallExpr{Fun: ast.NewIdent("simYield")}}
	}
	isSim := func(s ast.Stmt) bool {
		es, ok := s.(*ast.ExprStmt)
		if !ok {
			return false
		}
		call, ok := es.X.(*ast.CallExpr)
		if !ok {
			return false
		}
		id, ok := call.Fun.(*ast.Ident)
		return ok && strings.HasPrefix(id.Name, "sim")
	}
	var fix func(list []ast.Stmt) []ast.Stmt
	fix = func(list []ast.Stmt) []ast.Stmt {
		var out []ast.Stmt
		for i, s := range list {
			// a plain yield point before every statement that is neither an
			// announcement itself nor immediately announced (the announcement
			// is a scheduling point already), nor a declaration/defer/label
			// that executes nothing of interest
			switch s.(type) {
			case *ast.DeclStmt, *ast.DeferStmt, *ast.LabeledStmt, *ast.EmptyStmt, *ast.BranchStmt, *ast.CaseClause, *ast.CommClause:
			default:
				if yields && !isSim(s) && (i == 0 || !isSim(list[i-1])) {
					out = append(out, yield())
					yieldsInserted++
				}
			}
			if trace && traceLocks {
				if d, ok := s.(*ast.DeferStmt); ok {
					// defer x.Unlock(): a second defer, registered later, runs
					// first: the release is announced just before the unlock
					if x, write, ok := unlockCall(d.Call); ok {
						out = append(out, s, &ast.DeferStmt{Call: relCall(x, write)})
						releasesInserted++
						continue
					}
				}
				if es, ok := s.(*ast.ExprStmt); ok {
					if c, ok := es.X.(*ast.CallExpr); ok {
						if x, write, ok := unlockCall(c); ok {
							out = append(out, &ast.ExprStmt{X: relCall(x, write)})
							releasesInserted++
						}
					}
				}
			}
			if trace {
				for _, a := range accesses(fset, s) {
					out = append(out, a)
					accessesInserted++
				}
			}
			if x, write, ok := lockCall(s); ok && announceLocks {
				if i == 0 || !isAnnouncement(list[i-1]) {
					w := "false"
					if write {
						w = "true"
					}
					out = append(out, &ast.ExprStmt{X: &ast.CallExpr{
						Fun:  ast.NewIdent("simBeforeLockAny"),
						Args: []ast.Expr{&ast.UnaryExpr{Op: token.AND, X: x}, ast.NewIdent(w)},
					}})
					inserted++
				}
			}
			out = append(out, s)
		}
		return out
	}
	ast.Inspect(file, func(n ast.Node) bool {
		switch b := n.(type) {
		case *ast.BlockStmt:
			b.List = fix(b.List)
		case *ast.CaseClause:
			b.Body = fix(b.Body)
		case *ast.CommClause:
			b.Body = fix(b.Body)
		}
		return true
	})
	if inserted == 0 && yieldsInserted == 0 && releasesInserted == 0 && accessesInserted == 0 {
		return 0, nil
	}
	var buf bytes.Buffer
	if err := format.Node(&buf, fset, file); err != nil {
		return 0, err
	}
	return inserted, os.WriteFile(path, buf.Bytes(), 0o644)
}

// ---------- happens-before tracking: releases and shared-map accesses ----------

var (
	trace            bool
	traceLocks       bool
	releasesInserted int
	accessesInserted int
	mapFields        = map[string]bool{} // names of map-typed struct fields of the package
	sliceFields      = map[string]bool{} // names of slice-typed struct fields (followed only where followSlices)
	followSlices     bool
	pureFuncs        = map[string]bool{} // package functions/methods without synchronisation, transitively
	pkgTypes         = map[string]bool{}
	imports          = map[string]string{} // local name -> path
	unknownSync      []string
)

func sortedKeys(m map[string]bool) []string {
	var ks []string
	for k := range m {
		ks = append(ks, k)
	}
	sort.Strings(ks)
	return ks
}

func unlockCall(call *ast.CallExpr) (ast.Expr, bool, bool) {
	if call == nil || len(call.Args) != 0 {
		return nil, false, false
	}
	sel, ok := call.Fun.(*ast.SelectorExpr)
	if !ok {
		return nil, false, false
	}
	switch sel.Sel.Name {
	case "Unlock":
		return sel.X, true, true
	case "RUnlock":
		return sel.X, false, true
	}
	return nil, false, false
}

func boolIdent(b bool) ast.Expr {
	if b {
		return ast.NewIdent("true")
	}
	return ast.NewIdent("false")
}

func relCall(x ast.Expr, write bool) *ast.CallExpr {
	return &ast.CallExpr{Fun: ast.NewIdent("simRelease"), Args: []ast.Expr{&ast.UnaryExpr{Op: token.AND, X: x}, boolIdent(write)}}
}

var builtins = map[string]bool{"len": true, "cap": true, "make": true, "new": true, "append": true, "delete": true, "copy": true,
	"min": true, "max": true, "panic": true, "clear": true, "string": true, "int": true, "int64": true, "int32": true, "uint64": true,
	"uint32": true, "float64": true, "float32": true, "byte": true, "rune": true, "uint": true, "bool": true, "error": true}

var syncPaths = map[string]bool{"sync": true, "sync/atomic": true, "context": true, "time": true, "golang.org/x/sync/errgroup": true, "runtime": true}

// callPure: the call cannot synchronise with another goroutine, as far as
// syntax tells (builtins, conversions, functions of imported non-sync
// packages, package functions that are pure themselves).
func callPure(c *ast.CallExpr, pure map[string]bool) bool {
	switch f := c.Fun.(type) {
	case *ast.Ident:
		return builtins[f.Name] || pkgTypes[f.Name] || pure[f.Name]
	case *ast.SelectorExpr:
		if id, ok := f.X.(*ast.Ident); ok {
			if path, isPkg := imports[id.Name]; isPkg && id.Obj == nil {
				return !syncPaths[path]
			}
		}
		return pure[f.Sel.Name] && !strings.HasPrefix(f.Sel.Name, "sim")
	case *ast.ArrayType, *ast.MapType, *ast.ParenExpr, *ast.StarExpr:
		return true // conversion
	}
	return false
}

// exprsPure reports whether every call in the nodes (function literals not
// entered) is pure.
func nodesPure(pure map[string]bool, nodes ...ast.Node) bool {
	ok := true
	for _, n := range nodes {
		if n == nil || isNilNode(n) {
			continue
		}
		ast.Inspect(n, func(x ast.Node) bool {
			switch v := x.(type) {
			case *ast.FuncLit:
				return false
			case *ast.CallExpr:
				if !callPure(v, pure) {
					ok = false
				}
			case *ast.GoStmt, *ast.SendStmt, *ast.SelectStmt, *ast.DeferStmt:
				ok = false
			case *ast.UnaryExpr:
				if v.Op == token.ARROW {
					ok = false
				}
			}
			return ok
		})
	}
	return ok
}

func isNilNode(n ast.Node) bool {
	switch v := n.(type) {
	case ast.Expr:
		return v == nil
	case ast.Stmt:
		return v == nil
	}
	return false
}

// survey parses the package once: map-typed struct fields, type names,
// imports, function purity (fixpoint), synchronisation constructs the
// tracking does not know.
func survey(files []string) error {
	fset := token.NewFileSet()
	type fn struct {
		name string
		body *ast.BlockStmt
	}
	var fns []fn
	seenSync := map[string]bool{}
	for _, f := range files {
		base := filepath.Base(f)
		if strings.HasSuffix(base, "_test.go") || base == "sim_on.go" || base == "sim_off.go" || base == "sim_fill.go" {
			continue
		}
		file, err := parser.ParseFile(fset, f, nil, 0)
		if err != nil {
			return err
		}
		for _, im := range file.Imports {
			path := strings.Trim(im.Path.Value, "\"")
			name := path[strings.LastIndex(path, "/")+1:]
			if im.Name != nil {
				name = im.Name.Name
			}
			imports[name] = path
		}
		ast.Inspect(file, func(n ast.Node) bool {
			switch v := n.(type) {
			case *ast.TypeSpec:
				pkgTypes[v.Name.Name] = true
				if st, ok := v.Type.(*ast.StructType); ok {
					for _, fld := range st.Fields.List {
						if _, isMap := fld.Type.(*ast.MapType); isMap {
							for _, nm := range fld.Names {
								mapFields[nm.Name] = true
							}
						}
						if at, isArr := fld.Type.(*ast.ArrayType); isArr && at.Len == nil && followSlices {
							for _, nm := range fld.Names {
								sliceFields[nm.Name] = true
							}
						}
					}
				}
			case *ast.FuncDecl:
				if v.Body != nil {
					fns = append(fns, fn{v.Name.Name, v.Body})
				}
			case *ast.GoStmt:
				seenSync["a go statement (a goroutine the scheduler is not told about)"] = true
			case *ast.SelectStmt:
				seenSync["a select statement"] = true
			case *ast.ChanType:
				if !announceLocks {
					seenSync["a channel"] = true
				}
			case *ast.SelectorExpr:
				if id, ok := v.X.(*ast.Ident); ok && id.Obj == nil {
					switch path := imports[id.Name]; {
					case path == "sync/atomic":
						seenSync["sync/atomic"] = true
					case path == "sync" && v.Sel.Name == "Pool":
						seenSync["sync.Pool"] = true
						usesPool = true
					case path == "sync" && (v.Sel.Name == "Once" || v.Sel.Name == "Map" || v.Sel.Name == "Cond" || v.Sel.Name == "WaitGroup" || v.Sel.Name == "Pool" || v.Sel.Name == "OnceFunc" || v.Sel.Name == "OnceValue"):
						seenSync["sync."+v.Sel.Name] = true
					}
				}
			}
			return true
		})
	}
	unknownSync = sortedKeys(seenSync)
	// purity: start optimistic, remove until stable; a name declared twice
	// (methods of different types) is pure only if every declaration is
	for _, f := range fns {
		pureFuncs[f.name] = true
	}
	for changed := true; changed; {
		changed = false
		for _, f := range fns {
			if pureFuncs[f.name] && !nodesPure(pureFuncs, f.body) {
				pureFuncs[f.name] = false
				changed = true
			}
		}
	}
	return nil
}

// simpleChain: an identifier or a chain of field selections from one (an
// addressable operand as far as syntax tells).
func simpleChain(e ast.Expr) bool {
	switch v := e.(type) {
	case *ast.Ident:
		return true
	case *ast.SelectorExpr:
		return simpleChain(v.X)
	case *ast.ParenExpr:
		return simpleChain(v.X)
	case *ast.StarExpr:
		return simpleChain(v.X)
	}
	return false
}

func exprText(fset *token.FileSet, e ast.Expr) string {
	var b bytes.Buffer
	format.Node(&b, fset, e)
	return b.String()
}

// accesses returns the simAccess statements for the monitored map fields the
// statement s reads or writes itself (for compound statements: in its header;
// bodies are statements of their own). Nothing is announced for a statement
// that may synchronise on the way (an impure call), because the announcement
// would then carry an earlier clock than the access.
func accesses(fset *token.FileSet, s ast.Stmt) []ast.Stmt {
	var parts []ast.Node
	var lhs []ast.Expr
	switch v := s.(type) {
	case *ast.AssignStmt:
		for _, r := range v.Rhs {
			parts = append(parts, r)
		}
		lhs = v.Lhs
		if v.Tok != token.ASSIGN && v.Tok != token.DEFINE {
			for _, l := range v.Lhs { // x op= y reads x too
				parts = append(parts, l)
			}
		}
	case *ast.IncDecStmt:
		lhs = []ast.Expr{v.X}
		parts = append(parts, v.X)
	case *ast.ExprStmt:
		parts = append(parts, v.X)
	case *ast.ReturnStmt:
		for _, r := range v.Results {
			parts = append(parts, r)
		}
	case *ast.DeclStmt:
		parts = append(parts, v.Decl)
	case *ast.IfStmt:
		if v.Init != nil {
			return mergeAcc(fset, accesses(fset, v.Init), v.Cond, v.Init)
		}
		parts = append(parts, v.Cond)
	case *ast.ForStmt:
		if v.Init != nil {
			parts = append(parts, v.Init)
		}
		if v.Cond != nil {
			parts = append(parts, v.Cond)
		}
	case *ast.RangeStmt:
		parts = append(parts, v.X)
	case *ast.SwitchStmt:
		if v.Init != nil {
			parts = append(parts, v.Init)
		}
		if v.Tag != nil {
			parts = append(parts, v.Tag)
		}
	case *ast.TypeSwitchStmt:
		if v.Init != nil {
			parts = append(parts, v.Init)
		}
		parts = append(parts, v.Assign)
	default:
		return nil
	}
	all := append([]ast.Node{}, parts...)
	for _, l := range lhs {
		all = append(all, l)
	}
	if !nodesPure(pureFuncs, all...) {
		return nil
	}
	acc := map[string]bool{} // selector text -> write
	exprs := map[string]ast.Expr{}
	// names the statement's own init clause defines are not in scope where
	// the announcement is placed
	local := map[string]bool{}
	var initStmt ast.Stmt
	switch v := s.(type) {
	case *ast.ForStmt:
		initStmt = v.Init
	case *ast.SwitchStmt:
		initStmt = v.Init
	case *ast.TypeSwitchStmt:
		initStmt = v.Init
	}
	if as, ok := initStmt.(*ast.AssignStmt); ok && as.Tok == token.DEFINE {
		for _, l := range as.Lhs {
			if id, ok := l.(*ast.Ident); ok {
				local[id.Name] = true
			}
		}
	}
	for k := range extraLocal {
		local[k] = true
	}
	// two kinds of access: to the CONTENTS of the map (index, range, len,
	// delete, assignment to an element: announced with the map value, whose
	// identity is the key) and to the VARIABLE holding it (the bare field used
	// as a value or assigned: announced with its address). Reading the
	// variable does not conflict with writes to the contents.
	vacc := map[string]bool{} // variable accesses
	monitored := func(sel *ast.SelectorExpr) bool {
		if !(mapFields[sel.Sel.Name] || sliceFields[sel.Sel.Name]) || !simpleChain(sel.X) || local[rootName(sel)] {
			return false
		}
		if id, ok := sel.X.(*ast.Ident); ok && id.Obj == nil {
			if _, isPkg := imports[id.Name]; isPkg {
				return false
			}
		}
		return true
	}
	note := func(sel *ast.SelectorExpr, write bool) { // contents
		if !monitored(sel) {
			return
		}
		k := exprText(fset, sel)
		acc[k] = acc[k] || write
		exprs[k] = sel
		if sliceFields[sel.Sel.Name] && !mapFields[sel.Sel.Name] {
			// indexing a slice reads its header as well
			vacc[k] = vacc[k] || false
		}
	}
	noteVar := func(sel *ast.SelectorExpr, write bool) {
		if !monitored(sel) {
			return
		}
		k := exprText(fset, sel)
		vacc[k] = vacc[k] || write
		exprs[k] = sel
	}
	// local maps of an enclosing function that a function literal uses (what a
	// worker goroutine shares with its parent apart from the struct): contents
	// accesses only
	iacc := map[string]bool{}
	declaredHere := map[*ast.Object]bool{}
	if as, ok := s.(*ast.AssignStmt); ok && as.Tok == token.DEFINE {
		for _, l := range as.Lhs {
			if id, ok := l.(*ast.Ident); ok && id.Obj != nil && id.Obj.Decl == ast.Node(as) {
				declaredHere[id.Obj] = true
			}
		}
	}
	if ds, ok := s.(*ast.DeclStmt); ok {
		if gd, ok := ds.Decl.(*ast.GenDecl); ok {
			for _, sp := range gd.Specs {
				if vs, ok := sp.(*ast.ValueSpec); ok {
					for _, nm := range vs.Names {
						if nm.Obj != nil {
							declaredHere[nm.Obj] = true
						}
					}
				}
			}
		}
	}
	noteIdent := func(id *ast.Ident, write bool) {
		if id.Obj == nil || !captured[id.Obj] || local[id.Name] || declaredHere[id.Obj] || id.Name == "_" {
			return
		}
		iacc[id.Name] = iacc[id.Name] || write
	}
	var scan func(n ast.Node)
	scan = func(n ast.Node) {
		if n == nil || isNilNode(n) {
			return
		}
		ast.Inspect(n, func(x ast.Node) bool {
			switch v := x.(type) {
			case *ast.FuncLit:
				return false
			case *ast.IndexExpr:
				if sel, ok := v.X.(*ast.SelectorExpr); ok && monitored(sel) {
					note(sel, false)
					scan(sel.X)
					scan(v.Index)
					return false
				}
				if id, ok := v.X.(*ast.Ident); ok {
					noteIdent(id, false)
				}
			case *ast.SliceExpr:
				if sel, ok := v.X.(*ast.SelectorExpr); ok && monitored(sel) && sliceFields[sel.Sel.Name] {
					note(sel, false)
				}
			case *ast.CallExpr:
				if fs, ok := v.Fun.(*ast.SelectorExpr); ok && len(v.Args) > 0 {
					// sort.Ints(x.f), sort.Slice(x.f, …), slices.Sort(x.f) … write the elements
					if pk, ok := fs.X.(*ast.Ident); ok && pk.Obj == nil && (imports[pk.Name] == "sort" || imports[pk.Name] == "slices") {
						if sel, ok := v.Args[0].(*ast.SelectorExpr); ok && monitored(sel) && sliceFields[sel.Sel.Name] {
							note(sel, true)
						}
					}
				}
				if id, ok := v.Fun.(*ast.Ident); ok && id.Name == "copy" && len(v.Args) == 2 {
					if sel, ok := v.Args[0].(*ast.SelectorExpr); ok && monitored(sel) && sliceFields[sel.Sel.Name] {
						note(sel, true)
					}
					if sel, ok := v.Args[1].(*ast.SelectorExpr); ok && monitored(sel) && sliceFields[sel.Sel.Name] {
						note(sel, false)
					}
				}
				if id, ok := v.Fun.(*ast.Ident); ok && len(v.Args) > 0 {
					if m, ok := v.Args[0].(*ast.Ident); ok {
						switch id.Name {
						case "delete", "clear":
							noteIdent(m, true)
						case "len":
							noteIdent(m, false)
						}
					}
					if sel, ok := v.Args[0].(*ast.SelectorExpr); ok && monitored(sel) {
						switch id.Name {
						case "delete", "clear":
							note(sel, true)
						case "len":
							note(sel, false)
						default:
							return true
						}
						scan(sel.X)
						for _, a := range v.Args[1:] {
							scan(a)
						}
						return false
					}
				}
			case *ast.SelectorExpr:
				noteVar(v, false)
			}
			return true
		})
	}
	if rs, ok := s.(*ast.RangeStmt); ok {
		if id, ok := rs.X.(*ast.Ident); ok {
			noteIdent(id, false)
		}
		if sel, ok := rs.X.(*ast.SelectorExpr); ok && monitored(sel) {
			note(sel, false)
			scan(sel.X)
			parts = nil
		}
	}
	for _, p := range parts {
		scan(p)
	}
	var inner []ast.Expr // inner maps of a monitored map that are written: m[a][b] = x writes m[a]
	for _, l := range lhs {
		switch v := l.(type) {
		case *ast.IndexExpr:
			if id, ok := v.X.(*ast.Ident); ok {
				noteIdent(id, true)
			}
			if sel, ok := v.X.(*ast.SelectorExpr); ok && monitored(sel) {
				note(sel, true)
				scan(sel.X)
			} else {
				base := v.X
				for {
					ie, ok := base.(*ast.IndexExpr)
					if !ok {
						break
					}
					base = ie.X
				}
				if sel, ok := base.(*ast.SelectorExpr); ok && monitored(sel) {
					inner = append(inner, v.X)
				}
				scan(v.X)
			}
			scan(v.Index)
		case *ast.SelectorExpr:
			if monitored(v) {
				noteVar(v, true)
				scan(v.X)
			} else {
				scan(l)
			}
		default:
			scan(l)
		}
	}
	var out []ast.Stmt
	pos := fset.Position(s.Pos())
	emit := func(arg ast.Expr, write bool, what string) {
		site := fmt.Sprintf("%s:%d %s", filepath.Base(pos.Filename), pos.Line, what)
		out = append(out, &ast.ExprStmt{X: &ast.CallExpr{Fun: ast.NewIdent("simAccess"),
			Args: []ast.Expr{arg, boolIdent(write), &ast.BasicLit{Kind: token.STRING, Value: fmt.Sprintf("%q", site)}}}})
	}
	for _, e := range inner {
		emit(e, true, exprText(fset, e))
	}
	for _, k := range sortedKeys(toSet(acc)) {
		emit(exprs[k], acc[k], k)
	}
	for _, k := range sortedKeys(toSet(vacc)) {
		emit(&ast.UnaryExpr{Op: token.AND, X: exprs[k]}, vacc[k], k+" (the variable)")
	}
	for _, k := range sortedKeys(toSet(iacc)) {
		emit(ast.NewIdent(k), iacc[k], k+" (a local map shared with a function literal)")
	}
	return out
}

func toSet(m map[string]bool) map[string]bool {
	o := map[string]bool{}
	for k := range m {
		o[k] = true
	}
	return o
}

// mergeAcc: an if statement with an init clause — the accesses of the init
// statement plus those of the condition, unless either part may synchronise.
func mergeAcc(fset *token.FileSet, initAcc []ast.Stmt, cond ast.Expr, init ast.Stmt) []ast.Stmt {
	if !nodesPure(pureFuncs, cond, init) {
		return nil
	}
	extraLocal = map[string]bool{}
	if as, ok := init.(*ast.AssignStmt); ok && as.Tok == token.DEFINE {
		for _, l := range as.Lhs {
			if id, ok := l.(*ast.Ident); ok {
				extraLocal[id.Name] = true
			}
		}
	}
	condAcc := accesses(fset, &ast.ExprStmt{X: cond})
	extraLocal = nil
	return append(initAcc, condAcc...)
}

var extraLocal map[string]bool

func rootName(e ast.Expr) string {
	switch v := e.(type) {
	case *ast.Ident:
		return v.Name
	case *ast.SelectorExpr:
		return rootName(v.X)
	case *ast.ParenExpr:
		return rootName(v.X)
	case *ast.StarExpr:
		return rootName(v.X)
	}
	return ""
}

var captured = map[*ast.Object]bool{}

// findCaptured marks the local variables (declared inside a function body)
// that some function literal uses from outside its own body and that are
// declared as maps, as far as syntax tells (var m map[K]V, m := make(map[K]V),
// m := map[K]V{…}).
func findCaptured(file *ast.File) {
	var bodies [][2]token.Pos
	ast.Inspect(file, func(n ast.Node) bool {
		if fd, ok := n.(*ast.FuncDecl); ok && fd.Body != nil {
			bodies = append(bodies, [2]token.Pos{fd.Pos(), fd.End()})
		}
		return true
	})
	inFunc := func(p token.Pos) bool {
		for _, b := range bodies {
			if p >= b[0] && p < b[1] {
				return true
			}
		}
		return false
	}
	ast.Inspect(file, func(n ast.Node) bool {
		fl, ok := n.(*ast.FuncLit)
		if !ok {
			return true
		}
		ast.Inspect(fl.Body, func(x ast.Node) bool {
			id, ok := x.(*ast.Ident)
			if !ok || id.Obj == nil || id.Obj.Kind != ast.Var {
				return true
			}
			p := id.Obj.Pos()
			if p.IsValid() && inFunc(p) && (p < fl.Pos() || p >= fl.End()) && declaredAsMap(id.Obj) {
				captured[id.Obj] = true
			}
			return true
		})
		return true
	})
}

func isMapExpr(e ast.Expr) bool {
	switch v := e.(type) {
	case *ast.CompositeLit:
		_, ok := v.Type.(*ast.MapType)
		return ok
	case *ast.CallExpr:
		if id, ok := v.Fun.(*ast.Ident); ok && id.Name == "make" && len(v.Args) > 0 {
			_, ok := v.Args[0].(*ast.MapType)
			return ok
		}
	}
	return false
}

func declaredAsMap(o *ast.Object) bool {
	switch d := o.Decl.(type) {
	case *ast.ValueSpec:
		if _, ok := d.Type.(*ast.MapType); ok {
			return true
		}
		for i, nm := range d.Names {
			if nm.Name == o.Name && i < len(d.Values) && len(d.Names) == len(d.Values) {
				return isMapExpr(d.Values[i])
			}
		}
	case *ast.AssignStmt:
		if len(d.Lhs) == len(d.Rhs) {
			for i, l := range d.Lhs {
				if id, ok := l.(*ast.Ident); ok && id.Name == o.Name {
					return isMapExpr(d.Rhs[i])
				}
			}
		}
	case *ast.Field:
		_, ok := d.Type.(*ast.MapType)
		return ok
	}
	return false
}
