// hookfill makes the lock announcements of encoding/osm complete: in a scratch
// copy of the repository it inserts simBeforeLockAny(&x, write) before every
// statement x.Lock() / x.RLock() that is not already preceded by one of the
// announcement calls. The simulator's scheduler can only pass the token at
// announced operations; a lock taken without announcement would make the span
// up to the next announcement atomic (hiding check-then-act races around it) or
// block for real while holding the token. On a tree whose hooks are complete
// the pass inserts no announcement. It also inserts a plain scheduling point
// (simYield) before every other statement of the package: in the runs whose
// tape switches "fine-grained" mode on, the scheduler may then interleave the
// workers between any two statements, which exposes check-then-act sequences
// on shared state that no lock protects.
//
//	hookfill <repo> <scratch-repo>
package main

import (
	"bytes"
	"fmt"
	"go/ast"
	"go/format"
	"go/parser"
	"go/token"
	"os"
	"os/exec"
	"path/filepath"
	"strings"
)

func main() {
	if len(os.Args) != 3 {
		fmt.Fprintln(os.Stderr, "usage: hookfill <repo> <scratch-repo>")
		os.Exit(2)
	}
	src, dst := os.Args[1], os.Args[2]
	if err := os.MkdirAll(dst, 0o755); err != nil {
		fail(err)
	}
	// copy the working tree (without .git)
	cmd := exec.Command("rsync", "-a", "--delete", "--exclude", ".git", src+"/", dst+"/")
	if out, err := cmd.CombinedOutput(); err != nil {
		fail(fmt.Errorf("rsync: %v: %s", err, out))
	}
	total := 0
	// encoding/osm: lock announcements and statement-level yields;
	// route: statement-level yields only (the package has no locks and no
	// generic lock hook)
	for _, pkg := range []struct {
		dir   string
		locks bool
	}{{filepath.Join("encoding", "osm"), true}, {"route", false}} {
		announceLocks = pkg.locks
		files, _ := filepath.Glob(filepath.Join(dst, pkg.dir, "*.go"))
		for _, f := range files {
			base := filepath.Base(f)
			if strings.HasSuffix(base, "_test.go") || base == "sim_on.go" || base == "sim_off.go" {
				continue
			}
			n, err := fill(f)
			if err != nil {
				fail(fmt.Errorf("%s: %v", f, err))
			}
			if n > 0 {
				fmt.Printf("hookfill: %s: %d unannounced lock acquisition(s) announced\n", base, n)
			}
			total += n
		}
	}
	fmt.Printf("hookfill: %d announcement(s) inserted\n", total)
	fmt.Printf("hookfill: %d statement-level yield points inserted\n", yieldsInserted)
}

func fail(err error) {
	fmt.Fprintln(os.Stderr, "hookfill:", err)
	os.Exit(2)
}

func isAnnouncement(s ast.Stmt) bool {
	es, ok := s.(*ast.ExprStmt)
	if !ok {
		return false
	}
	call, ok := es.X.(*ast.CallExpr)
	if !ok {
		return false
	}
	id, ok := call.Fun.(*ast.Ident)
	return ok && (id.Name == "simBeforeRW" || id.Name == "simBeforeMutex" || id.Name == "simBeforeLockAny")
}

// lockCall returns the receiver expression and whether it is a write lock when
// s is a statement of the form x.Lock() or x.RLock().
func lockCall(s ast.Stmt) (ast.Expr, bool, bool) {
	es, ok := s.(*ast.ExprStmt)
	if !ok {
		return nil, false, false
	}
	call, ok := es.X.(*ast.CallExpr)
	if !ok || len(call.Args) != 0 {
		return nil, false, false
	}
	sel, ok := call.Fun.(*ast.SelectorExpr)
	if !ok {
		return nil, false, false
	}
	switch sel.Sel.Name {
	case "Lock":
		return sel.X, true, true
	case "RLock":
		return sel.X, false, true
	}
	return nil, false, false
}

var announceLocks = true
var yields = true
var yieldsInserted int

func fill(path string) (int, error) {
	fset := token.NewFileSet()
	file, err := parser.ParseFile(fset, path, nil, parser.ParseComments)
	if err != nil {
		return 0, err
	}
	inserted := 0
	yield := func() ast.Stmt {
		return &ast.ExprStmt{X: &ast.CallExpr{Fun: ast.NewIdent("simYield")}}
	}
	isSim := func(s ast.Stmt) bool {
		es, ok := s.(*ast.ExprStmt)
		if !ok {
			return false
		}
		call, ok := es.X.(*ast.CallExpr)
		if !ok {
			return false
		}
		id, ok := call.Fun.(*ast.Ident)
		return ok && strings.HasPrefix(id.Name, "sim")
	}
	var fix func(list []ast.Stmt) []ast.Stmt
	fix = func(list []ast.Stmt) []ast.Stmt {
		var out []ast.Stmt
		for i, s := range list {
			// a plain yield point before every statement that is neither an
			// announcement itself nor immediately announced (the announcement
			// is a scheduling point already), nor a declaration/defer/label
			// that executes nothing of interest
			switch s.(type) {
			case *ast.DeclStmt, *ast.DeferStmt, *ast.LabeledStmt, *ast.EmptyStmt, *ast.BranchStmt, *ast.CaseClause, *ast.CommClause:
			default:
				if yields && !isSim(s) && (i == 0 || !isSim(list[i-1])) {
					out = append(out, yield())
					yieldsInserted++
				}
			}
			if x, write, ok := lockCall(s); ok && announceLocks {
				if i == 0 || !isAnnouncement(list[i-1]) {
					w := "false"
					if write {
						w = "true"
					}
					out = append(out, &ast.ExprStmt{X: &ast.CallExpr{
						Fun:  ast.NewIdent("simBeforeLockAny"),
						Args: []ast.Expr{&ast.UnaryExpr{Op: token.AND, X: x}, ast.NewIdent(w)},
					}})
					inserted++
				}
			}
			out = append(out, s)
		}
		return out
	}
	ast.Inspect(file, func(n ast.Node) bool {
		switch b := n.(type) {
		case *ast.BlockStmt:
			b.List = fix(b.List)
		case *ast.CaseClause:
			b.Body = fix(b.Body)
		case *ast.CommClause:
			b.Body = fix(b.Body)
		}
		return true
	})
	if inserted == 0 && yieldsInserted == 0 {
		return 0, nil
	}
	var buf bytes.Buffer
	if err := format.Node(&buf, fset, file); err != nil {
		return 0, err
	}
	return inserted, os.WriteFile(path, buf.Bytes(), 0o644)
}
