#!/bin/sh
# Applies every behaviour-preserving refactoring under /verif/benign to /repo,
# runs its property's quick check (expected: exit 0), reverts.
cd /verif
for d in benign/*/; do
  id=$(basename $d); prop=${id%%-*}
  printf "%s %s " "$id" "$prop"
  tools/trymutant.sh /verif/$d/patch.diff $prop | head -1
done
