#!/bin/sh
# usage: trymutant.sh <patch.diff> <property id> [tier]
# Applies a seeded change to /repo, runs the registered check, reverts.
patch="$1"; prop="$2"; tier="${3:-quick}"
if [ -n "$(git -C /repo status --porcelain)" ]; then echo "/repo not clean"; exit 9; fi
git -C /repo apply "$patch" || { echo "patch does not apply"; exit 9; }
start=$(date +%s)
# evidence written while a seeded change is applied must never be committed
cp "/verif/evidence/$prop.json" "/tmp/trymutant.$$.ev" 2>/dev/null
/verif/check.sh "$prop" "$tier" > /tmp/trymutant.$$.log 2>&1
code=$?
[ -f "/tmp/trymutant.$$.ev" ] && mv "/tmp/trymutant.$$.ev" "/verif/evidence/$prop.json"
end=$(date +%s)
git -C /repo apply -R "$patch"
git -C /repo checkout -- . 
if [ -n "$(git -C /repo status --porcelain)" ]; then echo "WARNING: /repo not clean after revert"; git -C /repo status --short; fi
echo "exit=$code wall=$((end-start))s"
grep -E "^violation:|^VIOLATION|TROUBLE|build" /tmp/trymutant.$$.log | cut -c1-400 | head -8
rm -f /tmp/trymutant.$$.log
