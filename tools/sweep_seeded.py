#!/usr/bin/env python3
"""Runs every seeded change under /verif/seeded against its property's quick
check (apply to /repo, run, revert) and records the outcome in meta.json.
usage: sweep_seeded.py [id-prefix ...]"""
import json, os, subprocess, sys, time, re
root = '/verif/seeded'
sel = sys.argv[1:]
def sh(*a, **k): return subprocess.run(a, capture_output=True, text=True, **k)
assert sh('git','-C','/repo','status','--porcelain').stdout.strip()=='', '/repo not clean'
rows=[]
for d in sorted(os.listdir(root)):
    if sel and not any(d.startswith(s) for s in sel): continue
    mp=os.path.join(root,d,'meta.json')
    if not os.path.exists(mp): continue
    meta=json.load(open(mp))
    prop=meta['breaks_property']
    patch=os.path.join(root,d,'patch.diff')
    r=sh('git','-C','/repo','apply',patch)
    if r.returncode!=0:
        rows.append((d,prop,'PATCH-DOES-NOT-APPLY','',0)); meta['detected_by']={'check':prop,'result':'patch no longer applies to /repo HEAD'}; json.dump(meta,open(mp,'w'),indent=1); continue
    t=time.time()
    evp=f'/verif/evidence/{prop}.json'
    evb=open(evp).read() if os.path.exists(evp) else None
    try:
        c=sh('/verif/check.sh',prop,'quick')
    finally:
        if evb is not None: open(evp,'w').write(evb)  # evidence from a seeded tree is never kept
        sh('git','-C','/repo','apply','-R',patch); sh('git','-C','/repo','checkout','--','.')
    wall=time.time()-t
    viol=[l for l in c.stdout.splitlines() if l.startswith('violation:')]
    fps=sorted({l.split(':',2)[1].strip() for l in viol})
    head=sh('git','-C','/verif','rev-parse','--short','HEAD').stdout.strip()
    meta['detected_by']={'check':f'./check.sh {prop} quick','exit':c.returncode,'violation_fingerprints':fps,'wall_s':round(wall,1),'verif_commit':head,'first_violation':(viol[0][:300] if viol else None)}
    json.dump(meta,open(mp,'w'),indent=1)
    rows.append((d,prop,'DETECTED' if c.returncode==1 else f'MISSED(exit {c.returncode})',';'.join(fps)[:80],round(wall)))
assert sh('git','-C','/repo','status','--porcelain').stdout.strip()=='', '/repo not clean after sweep'
for r in rows: print('%-48s %-4s %-18s %-80s %ss'%r)
