#!/usr/bin/env python3
"""For seeded changes that touch code shared by several properties (index/rtree is
used by C11, C12 and, through route, C19) runs the OTHER properties' quick checks
as well and records the outcome in meta.json under 'other_checks'."""
import json, os, subprocess, time
root='/verif/seeded'
def sh(*a): return subprocess.run(a, capture_output=True, text=True)
assert sh('git','-C','/repo','status','--porcelain').stdout.strip()=='', '/repo not clean'
for d in sorted(os.listdir(root)):
    mp=f'{root}/{d}/meta.json'; patch=f'{root}/{d}/patch.diff'
    if not os.path.exists(mp): continue
    ptxt=open(patch).read()
    if 'index/rtree/' not in ptxt: continue
    meta=json.load(open(mp))
    own=meta['breaks_property']
    others=[p for p in ('C11','C12','C19') if p!=own]
    res=meta.get('other_checks',{})
    for p in others:
        if p in res: continue
        if sh('git','-C','/repo','apply',patch).returncode!=0:
            res[p]='patch does not apply'; continue
        evp=f'/verif/evidence/{p}.json'; evb=open(evp).read() if os.path.exists(evp) else None
        t=time.time()
        try:
            c=sh('/verif/check.sh',p,'quick')
        finally:
            sh('git','-C','/repo','apply','-R',patch); sh('git','-C','/repo','checkout','--','.')
            if evb is not None: open(evp,'w').write(evb)
        viol=[l for l in c.stdout.splitlines() if l.startswith('violation:')]
        fps=sorted({l.split(':',2)[1].strip() for l in viol})
        res[p]={'exit':c.returncode,'fingerprints':fps,'wall_s':round(time.time()-t,1)}
        print(d,own,'->',p,'exit',c.returncode,';'.join(fps)[:70],flush=True)
    meta['other_checks']=res
    json.dump(meta,open(mp,'w'),indent=1)
assert sh('git','-C','/repo','status','--porcelain').stdout.strip()=='', '/repo not clean after'
