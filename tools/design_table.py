#!/usr/bin/env python3
"""Rewrites the seeded-changes table in DESIGN.md from /verif/seeded/*/meta.json."""
import json, os, re
rows=[]
for d in sorted(os.listdir('/verif/seeded')):
    mp=f'/verif/seeded/{d}/meta.json'
    if not os.path.exists(mp): continue
    m=json.load(open(mp))
    det=m.get('detected_by') or {}
    res='not run yet'
    if det:
        if det.get('exit')==1: res='caught: '+', '.join(det.get('violation_fingerprints',[]))[:90]+f" ({det.get('wall_s')} s)"
        elif 'exit' in det: res=f"MISSED (exit {det['exit']})"
        else: res=det.get('result','?')
    if m.get('not_claimed') and (not det or det.get('exit')!=1):
        res='not claimed (see meta.json): '+m['not_claimed'][:120]+'…'
    oc=m.get('other_checks') or {}
    extra=[f"{k}: {'caught' if isinstance(v,dict) and v.get('exit')==1 else ('silent' if isinstance(v,dict) and v.get('exit')==0 else '?')}" for k,v in sorted(oc.items())]
    if extra: res+=' — other checks: '+', '.join(extra)
    rows.append(f"| `{d}` | {m['breaks_property']} | {m['needs_to_manifest'][:150].replace('|','/')} | {res} |")
table="| seeded change | property | needs, to manifest | quick check result |\n|---|---|---|---|\n"+"\n".join(rows)
p='/verif/DESIGN.md'
s=open(p).read()
s=re.sub(r'<!-- SEEDED-TABLE-BEGIN -->.*<!-- SEEDED-TABLE-END -->','<!-- SEEDED-TABLE-BEGIN -->\n'+table.replace('\\','\\\\')+'\n<!-- SEEDED-TABLE-END -->',s,flags=re.S)
open(p,'w').write(s)
print(len(rows),'rows')
