#!/bin/sh
# Runs the repository's own test suite with the verif build tag OFF
# (the same command as /root/.vp/BASELINE.json, with a fallback when the
# helper files are absent).
export GOPROXY=off GOSUMDB=off GOTOOLCHAIN=local
if [ -f /w/out/gomods.txt ] && [ -f /w/out/goenv.sh ]; then
	for m in $(cat /w/out/gomods.txt); do
		MF=$(cd /repo/$m && . /w/out/goenv.sh && gomodflag)
		(cd /repo/$m && go test $MF -json -vet=off -count=1 -timeout 25m ./...)
	done
else
	cd /repo && go test -mod=mod -json -vet=off -count=1 -timeout 25m ./...
fi
