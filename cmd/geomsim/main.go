// geomsim is the deterministic-simulation driver for ctessum/geom.
//
//	geomsim run -prop C11 -tier quick      supervisor: the registered check
//	geomsim worker …                       one worker process (internal)
//	geomsim replay [-quiet] <file>         re-execute a replay file
//	geomsim selftest -prop C11             determinism self-test
package main

import (
	"encoding/json"
	"flag"
	"fmt"
	"os"
	"os/exec"
	"path/filepath"
	"runtime"
	"runtime/pprof"
	"strconv"
	"strings"
	"time"

	"verif/sim/core"
	"verif/sim/runner"
	"verif/sim/tape"

	_ "verif/engines/osmsim"
	"verif/engines/projh"
	_ "verif/engines/routeh"
	_ "verif/engines/rtreeh"
	_ "verif/engines/storeh"
)

func envSeed() uint64 {
	if s := os.Getenv("VERIF_SEED"); s != "" {
		if v, err := strconv.ParseUint(s, 10, 64); err == nil {
			return v
		}
		if v, err := strconv.ParseInt(s, 10, 64); err == nil {
			return uint64(v)
		}
	}
	return 1
}

func root() string {
	if r := os.Getenv("VERIF_ROOT"); r != "" {
		return r
	}
	return "/verif"
}

func main() {
	if len(os.Args) < 2 {
		fmt.Fprintln(os.Stderr, "usage: geomsim run|worker|replay|selftest …")
		os.Exit(2)
	}
	exe, err := os.Executable()
	if err != nil {
		fmt.Fprintln(os.Stderr, err)
		os.Exit(2)
	}
	switch os.Args[1] {
	case "run":
		fs := flag.NewFlagSet("run", flag.ExitOnError)
		prop := fs.String("prop", "", "property id")
		tier := fs.String("tier", "", "quick|thorough")
		runs := fs.Uint64("runs", 0, "number of runs (0 = tier default)")
		workers := fs.Int("workers", 0, "worker processes")
		wall := fs.Float64("wall", 0, "wall-clock cap in seconds (0 = tier default)")
		noself := fs.Bool("noselftest", false, "skip the determinism self-test")
		fs.Parse(os.Args[2:])
		if *tier == "" {
			*tier = os.Getenv("VERIF_TIER")
		}
		if *tier != "thorough" {
			*tier = "quick"
		}
		if *workers == 0 {
			if w, err := strconv.Atoi(os.Getenv("VERIF_WORKERS")); err == nil {
				*workers = w
			}
		}
		seed := envSeed()
		o := runner.SupOpts{Prop: *prop, Tier: *tier, Base: seed, Runs: *runs, Workers: *workers, WallS: *wall, Root: root(), Exe: exe}
		var selfErr error
		if !*noself {
			eng, ok := core.Get(*prop)
			if !ok {
				fmt.Fprintln(os.Stderr, "unknown property", *prop)
				os.Exit(2)
			}
			n, procs := 24, 6
			if *tier == "thorough" {
				n, procs = 64, 30
			}
			st, err := runner.SelfTest(exe, *prop, seed, n, procs, eng.Info().MemLimitMB)
			selfErr = err
			o.ExtraSelf = func(string) map[string]interface{} {
				if err != nil {
					return map[string]interface{}{"determinism_selftest": map[string]interface{}{"failed": err.Error()}}
				}
				return map[string]interface{}{"determinism_selftest": st}
			}
			if err != nil {
				fmt.Fprintln(os.Stderr, "TROUBLE: determinism self-test:", err)
			} else {
				fmt.Printf("geomsim: determinism self-test ok (%d runs x %d processes, GOMAXPROCS 1/4/16)\n", n, procs)
			}
		}
		code := runner.Supervise(o)
		if code == 0 && selfErr != nil {
			code = 2
		}
		os.Exit(code)
	case "worker":
		fs := flag.NewFlagSet("worker", flag.ExitOnError)
		var o runner.WorkerOpts
		fs.StringVar(&o.Prop, "prop", "", "")
		fs.Uint64Var(&o.Base, "base", 1, "")
		fs.Uint64Var(&o.From, "from", 0, "")
		fs.Uint64Var(&o.To, "to", 0, "")
		fs.Uint64Var(&o.Stride, "stride", 1, "")
		fs.Uint64Var(&o.Offset, "offset", 0, "")
		fs.Float64Var(&o.WallS, "wall", 0, "")
		fs.StringVar(&o.OutFile, "out", "", "")
		fs.StringVar(&o.ReplayDir, "replaydir", filepath.Join(root(), "replays"), "")
		fs.StringVar(&o.KnownPath, "known", filepath.Join(root(), "known_findings.json"), "")
		fs.BoolVar(&o.HashOnly, "hash", false, "")
		fs.IntVar(&o.Shard, "shard", 0, "")
		fs.StringVar(&o.Journal, "journal", "", "")
		fs.BoolVar(&o.CountOnly, "count", false, "")
		prof := fs.String("cpuprofile", "", "")
		fs.Parse(os.Args[2:])
		if *prof != "" {
			f, err := os.Create(*prof)
			if err == nil {
				pprof.StartCPUProfile(f)
				code := runner.Worker(o)
				pprof.StopCPUProfile()
				f.Close()
				os.Exit(code)
			}
		}
		os.Exit(runner.Worker(o))
	case "c10-table":
		fs := flag.NewFlagSet("c10-table", flag.ExitOnError)
		ord := fs.String("order", "fwd", "")
		fs.Parse(os.Args[2:])
		for _, l := range projh.TableLines(*ord == "rev") {
			fmt.Println(l)
		}
		os.Exit(0)
	case "exec-tape":
		// internal: execute a tape (JSON array of values) once; exit 0 = no
		// violation, 1 = violation, anything else = the process died
		fs := flag.NewFlagSet("exec-tape", flag.ExitOnError)
		prop := fs.String("prop", "", "")
		fp := fs.String("fp", "", "exit 1 only for a violation with this fingerprint")
		fs.Parse(os.Args[2:])
		eng, ok := core.Get(*prop)
		if !ok || fs.NArg() != 1 {
			os.Exit(4)
		}
		b, err := os.ReadFile(fs.Arg(0))
		if err != nil {
			os.Exit(4)
		}
		var vals []uint64
		if json.Unmarshal(b, &vals) != nil {
			os.Exit(4)
		}
		res, tp := runner.ReplayVals(eng, vals, false)
		fmt.Printf("USED %d\n", tp.Used())
		if res.Viol != nil && (*fp == "" || res.Viol.Fingerprint() == *fp) {
			os.Exit(1)
		}
		os.Exit(0)
	case "exec-seq":
		// internal: execute the given runs (tapes derived from the base seed)
		// one after the other in this process, then the tape of a replay file;
		// exit 1 = the recorded violation reproduced, 0 = it did not
		fs := flag.NewFlagSet("exec-seq", flag.ExitOnError)
		prop := fs.String("prop", "", "")
		base := fs.Uint64("base", 1, "")
		runs := fs.String("runs", "", "comma-separated run numbers")
		write := fs.String("write", "", "write a replay file with the prelude tapes embedded")
		self := fs.Bool("self", false, "execute the failing run's own unminimised tape last, not the file's tape")
		fs.Parse(os.Args[2:])
		eng, ok := core.Get(*prop)
		if !ok || fs.NArg() != 1 {
			os.Exit(4)
		}
		rf, err := runner.ReadReplay(fs.Arg(0))
		if err != nil {
			os.Exit(4)
		}
		if rf.GOMAXPROCS > 0 {
			runtime.GOMAXPROCS(rf.GOMAXPROCS)
		}
		var pre [][]uint64
		var preRuns []uint64
		for _, f := range strings.Split(*runs, ",") {
			if f == "" {
				continue
			}
			r, err := strconv.ParseUint(f, 10, 64)
			if err != nil {
				os.Exit(4)
			}
			_, tp := runner.RunOnce(eng, tape.RunSeed(*base, *prop, r), false)
			pre = append(pre, append([]uint64{}, tp.Vals...))
			preRuns = append(preRuns, r)
		}
		if *self {
			// the failing run's own, unminimised tape instead of the file's
			_, tp := runner.RunOnce(eng, tape.RunSeed(*base, *prop, rf.Run), false)
			rf.Tape, rf.TapeLabels, rf.Shrink = append([]uint64{}, tp.Vals...), nil, nil
		}
		res, _ := runner.ReplayVals(eng, rf.Tape, true)
		if res.Viol == nil || res.Viol.Fingerprint() != rf.Violation.Fingerprint() {
			os.Exit(0)
		}
		if *write != "" && *self {
			rf.Violation, rf.Trace = *res.Viol, res.Trace
			rf.Note = "the tape minimised inside the worker process failed there only because an earlier minimisation candidate had changed state of the code under test that survives between runs; this is the run's tape again, minimised by re-executing candidates in fresh child processes"
			if _, err := runner.WriteReplay(filepath.Dir(*write), rf, filepath.Base(*write)); err != nil {
				os.Exit(4)
			}
		} else if *write != "" {
			rf.Prelude, rf.PreludeRuns = pre, preRuns
			rf.Violation, rf.Trace = *res.Viol, res.Trace
			rf.Note = fmt.Sprintf("the violation depends on state of the code under test that survives between runs in one process: runs %v (tapes embedded) are executed first, then the minimised tape of run %d", preRuns, rf.Run)
			if _, err := runner.WriteReplay(filepath.Dir(*write), rf, filepath.Base(*write)); err != nil {
				os.Exit(4)
			}
		}
		os.Exit(1)
	case "replay":
		fs := flag.NewFlagSet("replay", flag.ExitOnError)
		quiet := fs.Bool("quiet", false, "do not print the trace")
		child := fs.Bool("child", false, "internal: execute a seed-only replay in this process")
		fs.Parse(os.Args[2:])
		if fs.NArg() != 1 {
			fmt.Fprintln(os.Stderr, "usage: geomsim replay [-quiet] <file>")
			os.Exit(2)
		}
		os.Exit(replay(exe, fs.Arg(0), *quiet, *child))
	case "selftest":
		fs := flag.NewFlagSet("selftest", flag.ExitOnError)
		prop := fs.String("prop", "", "")
		n := fs.Int("n", 64, "")
		procs := fs.Int("procs", 30, "")
		fs.Parse(os.Args[2:])
		eng, ok := core.Get(*prop)
		if !ok {
			fmt.Fprintln(os.Stderr, "unknown property", *prop)
			os.Exit(2)
		}
		st, err := runner.SelfTest(exe, *prop, envSeed(), *n, *procs, eng.Info().MemLimitMB)
		if err != nil {
			fmt.Fprintln(os.Stderr, err)
			os.Exit(2)
		}
		fmt.Println(st)
	case "props":
		for _, p := range core.Props() {
			fmt.Println(p)
		}
	default:
		fmt.Fprintln(os.Stderr, "unknown command", os.Args[1])
		os.Exit(2)
	}
}

func replay(exe, path string, quiet, child bool) int {
	rf, err := runner.ReadReplay(path)
	if err != nil {
		fmt.Fprintln(os.Stderr, err)
		return 2
	}
	eng, ok := core.Get(rf.Property)
	if !ok {
		fmt.Fprintln(os.Stderr, "unknown property", rf.Property)
		return 2
	}
	if rf.GOMAXPROCS > 0 {
		runtime.GOMAXPROCS(rf.GOMAXPROCS)
	}
	want := rf.Violation.Fingerprint()
	if (rf.Tape == nil || strings.HasPrefix(rf.Violation.Class, "process-")) && !child {
		// seed-only (process death): run in a child so that the death is observed
		cmd := exec.Command(exe, "replay", "-quiet", "-child", path)
		if mb := eng.Info().MemLimitMB; mb > 0 {
			cmd = exec.Command("/bin/sh", "-c", fmt.Sprintf("ulimit -v %d; exec '%s' replay -quiet -child '%s'", mb*1024, exe, path))
		}
		// a recorded hang is reproduced by not finishing within the timeout
		var buf strings.Builder
		cmd.Stdout, cmd.Stderr = &buf, &buf
		if err := cmd.Start(); err != nil {
			fmt.Fprintln(os.Stderr, err)
			return 2
		}
		done := make(chan error, 1)
		go func() { done <- cmd.Wait() }()
		var err error
		select {
		case err = <-done:
		case <-time.After(60 * time.Second):
			cmd.Process.Kill()
			<-done
			err = fmt.Errorf("no result within 60 s (hang)")
		}
		if err != nil {
			if !quiet {
				os.Stdout.WriteString(buf.String())
			}
			fmt.Printf("replay: child process died or hung as recorded (%v): %s\n", err, want)
			fmt.Printf("VIOLATION property=%s replay=%s\n", rf.Property, path)
			return 1
		}
		fmt.Println("replay: the run completed; the recorded process death did not reproduce")
		return 0
	}
	var res core.Result
	for _, vals := range rf.Prelude {
		runner.ReplayVals(eng, vals, false)
	}
	if len(rf.Prelude) > 0 && !quiet {
		fmt.Printf("replay: %d earlier run(s) executed first in this process (runs %v)\n", len(rf.Prelude), rf.PreludeRuns)
	}
	if rf.Tape == nil {
		res, _ = runner.RunOnce(eng, rf.RunSeed, true)
	} else {
		res, _ = runner.ReplayVals(eng, rf.Tape, true)
	}
	if !quiet {
		for _, l := range res.Trace {
			fmt.Println("  ", l)
		}
	}
	if res.Viol == nil {
		fmt.Printf("replay: no violation (recorded: %s)\n", want)
		return 0
	}
	fmt.Printf("replay: %s: %s\n", res.Viol.Fingerprint(), res.Viol.Msg)
	if res.Viol.Fingerprint() != want {
		fmt.Printf("replay: a different violation than recorded (%s)\n", want)
		return 3
	}
	fmt.Printf("VIOLATION property=%s replay=%s\n", rf.Property, path)
	return 1
}
