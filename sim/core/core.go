// Package core holds what every engine shares: the event log (hashed, never
// drawing, never reading a clock), violation and run-result types, and the
// engine registry.
package core

import (
	"fmt"
	"runtime/debug"
	"sort"

	"verif/sim/tape"
)

// Log is the event log of one run. Every event is folded into a 64-bit FNV-1a
// hash; text is kept only when Keep is set (replay / samples).
type Log struct {
	Keep  bool
	Max   int
	Lines []string
	h     uint64
	n     int64
}

func NewLog(keep bool) *Log { return &Log{Keep: keep, Max: 4000, h: 14695981039346656037} }

func (l *Log) fold(s string) {
	h := l.h
	for i := 0; i < len(s); i++ {
		h ^= uint64(s[i])
		h *= 1099511628211
	}
	h ^= 0xff
	h *= 1099511628211
	l.h = h
	l.n++
}

// Event records one event. The string is built by the caller only through
// Eventf when tracing is cheap enough; hot paths use EventInts.
func (l *Log) Event(s string) {
	l.fold(s)
	if l.Keep && len(l.Lines) < l.Max {
		l.Lines = append(l.Lines, s)
	}
}

func (l *Log) Eventf(format string, a ...interface{}) { l.Event(fmt.Sprintf(format, a...)) }

// EventInts folds a tag and integers without formatting unless kept.
func (l *Log) EventInts(tag string, v ...int64) {
	if l.Keep && len(l.Lines) < l.Max {
		l.Lines = append(l.Lines, fmt.Sprint(tag, v))
	}
	h := l.h
	for i := 0; i < len(tag); i++ {
		h ^= uint64(tag[i])
		h *= 1099511628211
	}
	for _, x := range v {
		u := uint64(x)
		for k := 0; k < 8; k++ {
			h ^= u & 0xff
			h *= 1099511628211
			u >>= 8
		}
	}
	h ^= 0xff
	h *= 1099511628211
	l.h = h
	l.n++
}

// Violation records a violation: only the class is hashed (messages may
// contain addresses from panic stacks), the message is kept as a note.
func (l *Log) Violation(class, msg string) {
	l.Event("VIOLATION " + class)
	l.Note("  %s", msg)
}

// Note adds a line to the kept trace only; it is not an event (never hashed),
// so tracing cannot perturb the event log.
func (l *Log) Note(format string, a ...interface{}) {
	if l.Keep && len(l.Lines) < l.Max+200 {
		l.Lines = append(l.Lines, fmt.Sprintf(format, a...))
	}
}

// EventL is an event whose text is only built when the trace is kept: the
// hash covers tag and ints (identical in both modes), the text is a note.
func (l *Log) EventL(tag string, text func() string, v ...int64) {
	keep := l.Keep
	l.Keep = false
	l.EventInts(tag, v...)
	l.Keep = keep
	if keep && len(l.Lines) < l.Max {
		l.Lines = append(l.Lines, text())
	}
}

func (l *Log) Hash() uint64 { return l.h }
func (l *Log) Count() int64 { return l.n }

// Hasher is a small FNV-1a helper for state/case signatures.
type Hasher uint64

func NewHasher() Hasher { return 14695981039346656037 }
func (h Hasher) Str(s string) Hasher {
	x := uint64(h)
	for i := 0; i < len(s); i++ {
		x ^= uint64(s[i])
		x *= 1099511628211
	}
	x ^= 0xfe
	x *= 1099511628211
	return Hasher(x)
}
func (h Hasher) U64(u uint64) Hasher {
	x := uint64(h)
	for k := 0; k < 8; k++ {
		x ^= u & 0xff
		x *= 1099511628211
		u >>= 8
	}
	return Hasher(x)
}
func (h Hasher) Int(i int) Hasher { return h.U64(uint64(int64(i))) }

// Violation is a property violation found by an oracle.
type Violation struct {
	// Class identifies the kind of failure; minimisation only accepts
	// candidates that fail with the same class.
	Class string `json:"class"`
	// Detail is a stable fingerprint refinement (call site, keep function,
	// fault kind …) used to match known findings; may be empty.
	Detail string `json:"detail,omitempty"`
	Msg    string `json:"message"`
}

func (v *Violation) Fingerprint() string {
	if v.Detail == "" {
		return v.Class
	}
	return v.Class + "/" + v.Detail
}

// Result is what one simulated run reports.
type Result struct {
	Viol       *Violation
	Steps      int64            // simulated steps (scheduler steps or operations)
	Faults     map[string]int64 // fault kind -> times it actually fired
	Probes     map[string]int64 // rare-condition probes hit
	Strategy   string           // scheduler / workload strategy of this run
	CaseHash   uint64           // identifies (workload, schedule, faults)
	SchedHash  uint64           // identifies the interleaving (0 = n/a)
	States     []uint64         // state signatures reached in this run
	Cases      []uint64         // optional: several distinct non-trivial cases in one run (fault enumeration)
	Scheds     []uint64         // optional: several schedule signatures in one run
	NonTrivial bool
	LogHash    uint64
	Events     int64
	Trace      []string
	Aborted    string // run abandoned for a reason that is not this property's violation
}

func (r *Result) Fault(kind string) {
	if r.Faults == nil {
		r.Faults = map[string]int64{}
	}
	r.Faults[kind]++
}
func (r *Result) FaultN(kind string, n int64) {
	if n == 0 {
		return
	}
	if r.Faults == nil {
		r.Faults = map[string]int64{}
	}
	r.Faults[kind] += n
}
func (r *Result) Probe(name string) {
	if r.Probes == nil {
		r.Probes = map[string]int64{}
	}
	r.Probes[name]++
}
func (r *Result) ProbeN(name string, n int64) {
	if n == 0 {
		return
	}
	if r.Probes == nil {
		r.Probes = map[string]int64{}
	}
	r.Probes[name] += n
}

// Info describes an engine for the evidence file.
type Info struct {
	Prop          string
	Level         string // exploration | fault_enumeration
	Rule          string
	Real          []string
	Stubs         []string
	FaultKinds    []string
	StateMeasure  string
	SchedMeasure  string
	TimeStatement string
	Assumptions   []string
	QuickRuns     int // default number of runs per tier
	ThoroughRuns  int
	QuickWallS    int // wall-clock caps
	ThoroughWallS int
	// EvalsAreSteps: evidence "evaluations" counts Steps (e.g. faulted decode
	// calls) instead of runs.
	EvalsAreSteps bool
	// TokenScheduled: the engine runs real goroutines under the token
	// scheduler. A Go-runtime "all goroutines are asleep" then means that some
	// goroutine blocked in an operation the scheduler was never told about (a
	// deadlock among announced operations is detected by the scheduler itself
	// and reported as class "deadlock"): simulator coverage gap, exit 2.
	TokenScheduled bool
	// MemLimitMB, when non-zero, is applied to workers via ulimit -v.
	MemLimitMB int
}

// Engine is one property's simulated system + workload + oracle.
type Engine interface {
	Info() Info
	// Run executes one run, drawing every decision from t.
	Run(t *tape.Tape, trace bool) Result
}

var registry = map[string]func() Engine{}

func Register(prop string, f func() Engine) { registry[prop] = f }
func Get(prop string) (Engine, bool) {
	f, ok := registry[prop]
	if !ok {
		return nil, false
	}
	return f(), true
}
func Props() []string {
	var s []string
	for k := range registry {
		s = append(s, k)
	}
	sort.Strings(s)
	return s
}

// Protect runs f (a call into the code under test) and converts a panic into
// (panicked=true, value, stack).
func Protect(f func()) (panicked bool, val interface{}, stack string) {
	defer func() {
		if e := recover(); e != nil {
			panicked = true
			val = e
			stack = string(debug.Stack())
		}
	}()
	f()
	return
}

// TrimStack keeps the frames of the code under test (first lines mentioning
// ctessum/geom) so a panic message stays short and stable.
func TrimStack(stack string, max int) string {
	var out []string
	lines := splitLines(stack)
	for i := 0; i+1 < len(lines); i++ {
		if containsStr(lines[i], "ctessum/geom") && !containsStr(lines[i], "verif/") {
			out = append(out, lines[i])
			if len(out) >= max {
				break
			}
		}
	}
	s := ""
	for _, l := range out {
		s += l + " <- "
	}
	return s
}

func splitLines(s string) []string {
	var out []string
	st := 0
	for i := 0; i < len(s); i++ {
		if s[i] == '\n' {
			out = append(out, s[st:i])
			st = i + 1
		}
	}
	if st < len(s) {
		out = append(out, s[st:])
	}
	return out
}

func containsStr(s, sub string) bool {
	for i := 0; i+len(sub) <= len(s); i++ {
		if s[i:i+len(sub)] == sub {
			return true
		}
	}
	return false
}
