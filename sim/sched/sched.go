// Package sched is a cooperative token-passing scheduler for real goroutines:
// exactly one simulated task runs at a time; at every intercepted
// synchronisation point the running task parks with a readiness predicate and
// the next task to run is chosen from the tape. The real mutexes and channels
// stay in the code under test; because only the token holder runs, the real
// operation that follows a hook never blocks.
package sched

import (
	"fmt"
	"os"
	"runtime"
	"sync"

	"verif/sim/core"
	"verif/sim/tape"
)

var debug = os.Getenv("VERIF_SCHED_DEBUG") != ""

// Abort is the panic value used to unwind the main task when the run is
// abandoned (deadlock / step cap).
type Abort struct{ Why string }

// Task is one simulated task (main or a worker goroutine).
type Task struct {
	id      int
	slot    int       // 0 = main; workers: 1..n within their pass
	wake    chan bool // true = abort
	ready   func() bool
	site    string
	done    bool
	parked  bool
	stalled int64 // frozen until this step
	prio    int
}

func (t *Task) ID() int { return t.id }

// Strategy names.
const (
	RoundRobin = "round-robin"
	Uniform    = "uniform"
	Sticky     = "sticky"
	Priority   = "pct-priorities"
	Stall      = "stall-worker"
	Starve     = "starve-one"
)

var Strategies = []string{RoundRobin, Uniform, Sticky, Priority, Stall, Starve}

// S is one run's scheduler.
type S struct {
	mu        sync.Mutex
	cond      *sync.Cond
	t         *tape.Tape
	log       *core.Log
	tasks     []*Task
	nextID    int
	cur       *Task
	main      *Task
	announced int
	arrived   int
	wg        sync.WaitGroup
	passSlots int
	Step      int64
	StepCap   int64
	Strategy  string
	sticky    int
	changeAt  map[int64]bool
	starve    int
	stallP    int
	stallLen  int
	Aborted   string
	AbortDesc string // where every task was parked when the run was abandoned
	Draining  bool
	Leaked    int
	hash      core.Hasher
	// OnStep, when set, is called by the token holder at every decision
	// (used for step-indexed fault injection such as context cancellation).
	OnStep func(step int64)
	// statistics
	Handoffs    int64
	StallsFired int64
	MaxAlive    int
}

// New creates a scheduler whose calling goroutine is the main task.
func New(t *tape.Tape, log *core.Log, strategy string, stepCap int64) *S {
	s := &S{t: t, log: log, Strategy: strategy, StepCap: stepCap, hash: core.NewHasher(), changeAt: map[int64]bool{}, starve: -1}
	s.cond = sync.NewCond(&s.mu)
	s.main = &Task{id: 0, wake: make(chan bool, 1)}
	s.tasks = []*Task{s.main}
	s.nextID = 1
	s.cur = s.main
	switch strategy {
	case Sticky:
		s.sticky = 2 + t.Choose(30, "sticky-len")
	case Priority:
		d := 1 + t.Choose(4, "pct-changes")
		for i := 0; i < d; i++ {
			s.changeAt[int64(1+t.Choose(400, "pct-change-at"))] = true
		}
	case Stall:
		s.stallP = 4 + t.Choose(60, "stall-p")
		s.stallLen = 20 + t.Choose(2000, "stall-len")
	case Starve:
		s.starve = 1 + t.Choose(8, "starve-who")
	}
	return s
}

func (s *S) SchedHash() uint64 { return uint64(s.hash) }
func (s *S) Main() *Task       { return s.main }
func (s *S) Cur() *Task        { return s.cur }

// Spawn announces n children. They are indistinguishable until they have
// arrived, so their arrival order carries no information. Finished tasks of
// earlier passes are dropped here.
func (s *S) Spawn(n int) {
	s.mu.Lock()
	live := s.tasks[:0]
	for _, tk := range s.tasks {
		if !tk.done || tk == s.main {
			live = append(live, tk)
		}
	}
	s.tasks = live
	s.announced += n
	s.passSlots = 0
	s.mu.Unlock()
}

// Enter registers the calling goroutine as a new task and parks it until the
// scheduler picks it.
func (s *S) Enter() {
	s.mu.Lock()
	s.passSlots++
	tk := &Task{id: s.nextID, slot: s.passSlots, wake: make(chan bool, 1), parked: true, site: "enter", prio: -1}
	s.nextID++
	s.tasks = append(s.tasks, tk)
	s.arrived++
	s.wg.Add(1)
	s.cond.Broadcast()
	s.mu.Unlock()
	if abort := <-tk.wake; abort {
		tk.done = true
		s.wg.Done() // the deferred Exit hook is not registered yet
		runtime.Goexit()
	}
}

// WaitAll blocks until every worker goroutine has passed its last hook. The
// harness calls it before the next run installs a new scheduler, so that no
// goroutine of this run can ever call a hook of the next one.
func (s *S) WaitAll() { s.wg.Wait() }

// WaitArrived blocks the token holder until every announced child has parked.
// Children that are NOT interchangeable (they run different code or data)
// must be spawned one at a time with WaitArrived in between, so that task ids
// do not depend on the real arrival order.
func (s *S) WaitArrived() { s.waitArrivals() }

// waitArrivals blocks the token holder until every announced child has parked.
func (s *S) waitArrivals() {
	s.mu.Lock()
	for s.arrived < s.announced {
		s.cond.Wait()
	}
	s.mu.Unlock()
}

// decide picks the next task to run among the ready ones. Only the token
// holder calls it; self is nil when the caller is leaving.
func (s *S) decide(self *Task) *Task {
	s.waitArrivals()
	s.Step++
	if s.OnStep != nil {
		s.OnStep(s.Step)
	}
	var ready, frozen []*Task
	alive := 0
	for _, tk := range s.tasks {
		if tk.done {
			continue
		}
		alive++
		if tk.prio == -1 && s.Strategy == Priority {
			tk.prio = s.t.Choose(1000, "pct-prio")
		}
		if tk.ready == nil || tk.ready() {
			if tk.stalled > s.Step || (s.starve > 0 && tk.slot == s.starve) {
				frozen = append(frozen, tk)
			} else {
				ready = append(ready, tk)
			}
		}
	}
	if alive > s.MaxAlive {
		s.MaxAlive = alive
	}
	if len(ready) == 0 {
		ready = frozen // a frozen task runs when nothing else can
	}
	if len(ready) == 0 {
		return nil
	}
	selfReady := false
	for _, tk := range ready {
		if tk == self {
			selfReady = true
		}
	}
	var pick *Task
	switch s.Strategy {
	case RoundRobin:
		pick = ready[0]
		if self != nil {
			for _, tk := range ready {
				if tk.id > self.id {
					pick = tk
					break
				}
			}
		}
	case Sticky:
		if selfReady && s.t.Choose(s.sticky, "sticky") != 0 {
			pick = self
		} else {
			pick = ready[s.t.Choose(len(ready), "pick")]
		}
	case Priority:
		if s.changeAt[s.Step] && self != nil {
			self.prio = -2 - int(s.Step) // lowest so far
		}
		pick = ready[0]
		for _, tk := range ready {
			if tk.prio > pick.prio {
				pick = tk
			}
		}
	case Stall:
		// now and then freeze a ready worker for a long time (a slow or
		// pre-empted thread) …
		if len(ready) > 1 && s.t.Choose(s.stallP, "stall?") == 0 {
			cand := ready[s.t.Choose(len(ready), "stall-who")]
			if cand != s.main {
				cand.stalled = s.Step + int64(1+s.t.Choose(s.stallLen, "stall-for"))
				s.StallsFired++
				r2 := ready[:0:0]
				for _, tk := range ready {
					if tk != cand {
						r2 = append(r2, tk)
					}
				}
				ready = r2
				if cand == self {
					selfReady = false
				}
			}
		}
		// … otherwise mostly keep running the same task, like a real CPU
		if selfReady && s.t.Choose(4, "stall-keep") != 0 {
			pick = self
		} else {
			pick = ready[s.t.Choose(len(ready), "pick")]
		}
	default: // Uniform, Starve
		pick = ready[s.t.Choose(len(ready), "pick")]
	}
	s.hash = s.hash.Int(pick.id)
	return pick
}

// Yield parks the token holder at site with a readiness predicate and runs
// whoever is chosen next.
func (s *S) Yield(site string, ready func() bool) {
	self := s.cur
	if s.Aborted != "" {
		s.leave(self)
	}
	self.site, self.ready = site, ready
	if s.Step >= s.StepCap {
		s.abort("step-cap", self)
	}
	pick := s.decide(self)
	if pick == nil {
		s.abort("deadlock", self)
	}
	s.log.EventL(site, func() string {
		if pick == self {
			return fmt.Sprintf("step %d: t%d at %s, keeps running", s.Step, self.id, site)
		}
		return fmt.Sprintf("step %d: t%d parks at %s; t%d runs (was at %s)", s.Step, self.id, site, pick.id, pick.site)
	}, int64(self.id), int64(pick.id))
	if debug {
		fmt.Fprintf(os.Stderr, "step %d: t%d@%s -> t%d | %s\n", s.Step, self.id, site, pick.id, s.Describe())
	}
	if pick == self {
		self.ready = nil
		return
	}
	s.Handoffs++
	self.parked = true
	s.cur = pick
	pick.parked = false
	pick.wake <- false
	if abort := <-self.wake; abort {
		s.leave(self)
	}
	self.ready = nil
}

func (s *S) leave(self *Task) {
	self.done = true
	if self == s.main {
		panic(Abort{s.Aborted})
	}
	runtime.Goexit()
}

// abort abandons the run: parked tasks are woken with the abort flag (workers
// Goexit, main panics with Abort), then the caller leaves the same way.
func (s *S) abort(why string, self *Task) {
	s.setAborted(why)
	s.release(self)
	s.leave(self)
}

func (s *S) setAborted(why string) {
	if s.Aborted == "" {
		s.Aborted = why
		for _, tk := range s.tasks {
			if !tk.done && tk != s.main {
				s.Leaked++
			}
		}
		s.AbortDesc = s.Describe()
		s.log.Event("abort " + why + " " + s.AbortDesc)
	}
}

func (s *S) release(except *Task) {
	for _, tk := range s.tasks {
		if tk != except && !tk.done && tk.parked {
			tk.parked = false
			tk.wake <- true
		}
	}
}

// Exit ends the calling worker task and passes the token on.
func (s *S) Exit() {
	defer s.wg.Done()
	if s.Aborted != "" {
		return // aborted: the goroutine is on its way out (several may run here at once)
	}
	self := s.cur
	self.done = true
	pick := s.decide(nil)
	s.log.EventL("exit", func() string { return fmt.Sprintf("step %d: t%d exits", s.Step, self.id) }, int64(self.id))
	if pick == nil {
		// nobody can run although main (at least) is alive: deadlock
		s.setAborted("deadlock")
		s.release(self)
		return
	}
	s.Handoffs++
	s.cur = pick
	pick.parked = false
	pick.wake <- false
}

// Drain is called by the harness (on the main task's goroutine) after the
// code under test has returned while workers may still be alive: error
// returns of extract do not join them. The remaining workers run under the
// scheduler until they exit; workers that can never run again are released
// (Goexit) and counted in Leaked.
func (s *S) Drain() {
	if s.Aborted != "" {
		return
	}
	s.Draining = true
	defer func() {
		if e := recover(); e != nil {
			if _, ok := e.(Abort); !ok {
				panic(e)
			}
		}
	}()
	s.main.done = false
	s.cur = s.main
	s.Yield("drain", func() bool {
		for _, tk := range s.tasks {
			if tk != s.main && !tk.done {
				return false
			}
		}
		return true
	})
}

// WorkersDone reports whether every worker task has exited.
func (s *S) WorkersDone() bool {
	for _, tk := range s.tasks {
		if tk != s.main && !tk.done {
			return false
		}
	}
	return true
}

// Describe lists the tasks and where they are parked.
func (s *S) Describe() string {
	out := ""
	for _, tk := range s.tasks {
		st := "running"
		if tk.done {
			st = "done"
		} else if tk.parked {
			st = "parked@" + tk.site
		}
		out += fmt.Sprintf("t%d:%s ", tk.id, st)
	}
	return out
}
