package runner

import (
	"bufio"
	"encoding/json"
	"fmt"
	"os"
	"regexp"
	"runtime"
	"runtime/debug"
	"sort"
	"time"

	"verif/sim/core"
	"verif/sim/shrink"
	"verif/sim/tape"
)

// KnownFinding is one entry of /verif/known_findings.json (committed, never
// written at run time).
type KnownFinding struct {
	Property    string `json:"property"`
	Fingerprint string `json:"fingerprint_regex"` // matched against Violation.Fingerprint()
	Message     string `json:"message_regex"`     // optional, matched against Violation.Msg
	What        string `json:"what_fails"`
}

type KnownFile struct {
	Findings []KnownFinding `json:"findings"`
	Fixed    []string       `json:"fixed"`
}

func LoadKnown(path string) (*KnownFile, error) {
	b, err := os.ReadFile(path)
	if err != nil {
		if os.IsNotExist(err) {
			return &KnownFile{}, nil
		}
		return nil, err
	}
	var k KnownFile
	if err := json.Unmarshal(b, &k); err != nil {
		return nil, err
	}
	return &k, nil
}

func (k *KnownFile) Match(prop string, v *core.Violation) *KnownFinding {
	for i := range k.Findings {
		f := &k.Findings[i]
		if f.Property != prop {
			continue
		}
		if ok, _ := regexp.MatchString(f.Fingerprint, v.Fingerprint()); !ok {
			continue
		}
		if f.Message != "" {
			if ok, _ := regexp.MatchString(f.Message, v.Msg); !ok {
				continue
			}
		}
		return f
	}
	return nil
}

// WorkerOpts configures one worker process.
type WorkerOpts struct {
	Prop      string
	Base      uint64
	From, To  uint64 // run indices [From,To)
	Stride    uint64
	Offset    uint64
	WallS     float64
	OutFile   string // worker summary (JSON)
	ReplayDir string
	KnownPath string
	HashOnly  bool // determinism self-test: print "H run hash" only
	Shard     int
	Journal   string // confirm mode: journal every tape value to this file
	CountOnly bool   // sensitivity experiments: print "V run fingerprint" for violating runs and go on
}

// WorkerSummary is what a worker reports when it finishes.
type WorkerSummary struct {
	Shard       int              `json:"shard"`
	Runs        int64            `json:"runs"`
	Steps       int64            `json:"steps"`
	Events      int64            `json:"events"`
	Aborted     map[string]int64 `json:"aborted"`
	Faults      map[string]int64 `json:"faults"`
	Probes      map[string]int64 `json:"probes"`
	Strategies  map[string]int64 `json:"strategies"`
	NonTrivial  []uint64         `json:"nontrivial_case_hashes"`
	Scheds      []uint64         `json:"sched_hashes"`
	States      []uint64         `json:"state_hashes"`
	Capped      bool             `json:"capped"`
	Samples     [][]string       `json:"samples"`
	Violations  []ViolReport     `json:"violations"`
	Known       map[string]int64 `json:"known"`
	FirstRun    uint64           `json:"first_run"`
	LastRun     uint64           `json:"last_run"`
	WallS       float64          `json:"wall_s"`
	StoppedWhy  string           `json:"stopped_why"`
	HarnessFail string           `json:"harness_fail,omitempty"`
}

type ViolReport struct {
	Run         uint64 `json:"run"`
	Fingerprint string `json:"fingerprint"`
	Class       string `json:"class"`
	Msg         string `json:"msg"`
	Replay      string `json:"replay"`
	TapeFrom    int    `json:"tape_from"`
	TapeTo      int    `json:"tape_to"`
	ShrinkExecs int    `json:"shrink_execs"`
}

const hashCap = 1 << 20

// RunOnce executes one run of an engine from a fresh recording tape.
func RunOnce(eng core.Engine, seed uint64, trace bool) (core.Result, *tape.Tape) {
	return runOnceJ(eng, seed, trace, "")
}

func runOnceJ(eng core.Engine, seed uint64, trace bool, journal string) (core.Result, *tape.Tape) {
	t := tape.New(seed)
	if journal != "" {
		if f, err := os.Create(journal); err == nil {
			t.Journal = f
			defer f.Close()
		}
	}
	t.KeepRec = trace
	res := eng.Run(t, trace)
	return res, t
}

// ReplayVals executes one run from recorded values.
func ReplayVals(eng core.Engine, vals []uint64, trace bool) (core.Result, *tape.Tape) {
	if f := os.Getenv("VERIF_DUMP_TAPE"); f != "" {
		// debugging aid: the tape about to be executed (survives a process death)
		b, _ := json.Marshal(vals)
		os.WriteFile(f, b, 0o644)
	}
	t := tape.Replay(vals)
	t.KeepRec = trace
	res := eng.Run(t, trace)
	return res, t
}

// Worker runs its share of the runs and writes a summary.
func Worker(o WorkerOpts) (code int) {
	// A Go panic that reaches this frame comes from the harness itself (calls
	// into the code under test are wrapped by core.Protect): exit 3 = simulator
	// trouble, never a violation. Fatal runtime errors and panics in goroutines
	// of the code under test kill the process with exit 2 and are attributed
	// by the supervisor.
	defer func() {
		if e := recover(); e != nil {
			fmt.Fprintf(os.Stderr, "HARNESS-PANIC: %v\n%s\n", e, debug.Stack())
			os.Exit(3)
		}
	}()
	eng, ok := core.Get(o.Prop)
	if !ok {
		fmt.Fprintf(os.Stderr, "unknown property %s\n", o.Prop)
		return 2
	}
	known, err := LoadKnown(o.KnownPath)
	if err != nil {
		fmt.Fprintf(os.Stderr, "known findings: %v\n", err)
		return 2
	}
	out := bufio.NewWriter(os.Stdout)
	defer out.Flush()
	start := time.Now()
	sum := WorkerSummary{Shard: o.Shard, Aborted: map[string]int64{}, Faults: map[string]int64{}, Probes: map[string]int64{},
		Strategies: map[string]int64{}, Known: map[string]int64{}, FirstRun: ^uint64(0)}
	nt := map[uint64]struct{}{}
	sc := map[uint64]struct{}{}
	stt := map[uint64]struct{}{}
	sum.StoppedWhy = "all runs done"
	checkEvery := uint64(1)
	var n uint64
	for i := o.From + o.Offset; i < o.To; i += o.Stride {
		n++
		if n%checkEvery == 0 && o.WallS > 0 && time.Since(start).Seconds() > o.WallS {
			sum.StoppedWhy = "wall-clock budget"
			break
		}
		seed := tape.RunSeed(o.Base, o.Prop, i)
		// journal: which run is about to start (crash attribution)
		fmt.Fprintf(out, "S %d\n", i)
		out.Flush()
		res, tp := runOnceJ(eng, seed, false, o.Journal)
		if o.HashOnly {
			fmt.Fprintf(out, "H %d %016x %d\n", i, res.LogHash, res.Events)
			continue
		}
		if o.CountOnly {
			if res.Viol != nil {
				fmt.Fprintf(out, "V %d %s\n", i, res.Viol.Fingerprint())
			}
			continue
		}
		if sum.FirstRun == ^uint64(0) {
			sum.FirstRun = i
		}
		sum.LastRun = i
		sum.Runs++
		sum.Steps += res.Steps
		sum.Events += res.Events
		for k, v := range res.Faults {
			sum.Faults[k] += v
		}
		for k, v := range res.Probes {
			sum.Probes[k] += v
		}
		if res.Strategy != "" {
			sum.Strategies[res.Strategy]++
		}
		if res.Aborted != "" {
			sum.Aborted[res.Aborted]++
		}
		if res.NonTrivial && res.Viol == nil {
			if len(res.Cases) > 0 {
				// counted through Cases below
			} else if len(nt) < hashCap {
				nt[res.CaseHash] = struct{}{}
			} else {
				sum.Capped = true
			}
			if len(sum.Samples) < 2 {
				r2, _ := ReplayVals(eng, tp.Vals, true)
				if r2.LogHash != res.LogHash {
					sum.HarnessFail = fmt.Sprintf("run %d: replay of the recorded tape gave a different event log (%016x vs %016x): simulator nondeterminism", i, r2.LogHash, res.LogHash)
					break
				}
				tr := r2.Trace
				if len(tr) > 60 {
					tr = append(append([]string{}, tr[:40]...), fmt.Sprintf("… %d more events …", len(tr)-50))
					tr = append(tr, r2.Trace[len(r2.Trace)-10:]...)
				}
				sum.Samples = append(sum.Samples, append([]string{fmt.Sprintf("run %d seed %d strategy %q", i, seed, res.Strategy)}, tr...))
			}
		}
		if res.SchedHash != 0 && len(sc) < hashCap {
			sc[res.SchedHash] = struct{}{}
		}
		for _, h := range res.Scheds {
			if len(sc) < hashCap {
				sc[h] = struct{}{}
			}
		}
		if res.Viol == nil {
			for _, h := range res.Cases {
				if len(nt) < hashCap {
					nt[h] = struct{}{}
				} else {
					sum.Capped = true
				}
			}
		}
		for _, s := range res.States {
			if len(stt) < hashCap {
				stt[s] = struct{}{}
			}
		}
		if res.Viol != nil {
			if kf := known.Match(o.Prop, res.Viol); kf != nil {
				sum.Known[kf.What]++
				continue
			}
			vr, herr := reportViolation(eng, o, i, seed, res, tp, known)
			if herr != "" {
				sum.HarnessFail = herr
				break
			}
			if vr != nil {
				sum.Violations = append(sum.Violations, *vr)
				sum.StoppedWhy = "violation found"
				break
			}
		}
	}
	for h := range nt {
		sum.NonTrivial = append(sum.NonTrivial, h)
	}
	for h := range sc {
		sum.Scheds = append(sum.Scheds, h)
	}
	for h := range stt {
		sum.States = append(sum.States, h)
	}
	sort.Slice(sum.NonTrivial, func(i, j int) bool { return sum.NonTrivial[i] < sum.NonTrivial[j] })
	sort.Slice(sum.Scheds, func(i, j int) bool { return sum.Scheds[i] < sum.Scheds[j] })
	sort.Slice(sum.States, func(i, j int) bool { return sum.States[i] < sum.States[j] })
	sum.WallS = time.Since(start).Seconds()
	if o.HashOnly || o.CountOnly {
		return 0
	}
	b, _ := json.Marshal(&sum)
	if err := os.WriteFile(o.OutFile, b, 0o644); err != nil {
		fmt.Fprintf(os.Stderr, "write summary: %v\n", err)
		return 2
	}
	fmt.Fprintf(out, "D %d\n", sum.Runs)
	if sum.HarnessFail != "" {
		return 2
	}
	return 0
}

// reportViolation re-executes the failing tape (must reproduce), minimises it
// and writes the replay file. A known finding discovered only after shrinking
// is not possible: matching is done on the original violation, and the
// minimiser keeps class AND detail fixed.
func reportViolation(eng core.Engine, o WorkerOpts, run, seed uint64, res core.Result, tp *tape.Tape, known *KnownFile) (*ViolReport, string) {
	want := res.Viol.Fingerprint()
	// reproduce from the tape alone
	// (trace mode: engines that cannot own a nondeterminism source of the code
	// under test — Go map order inside osm.Check/Filter — repeat such calls
	// many more times when tracing)
	os.Stdout.WriteString("K\n")
	r2, _ := ReplayVals(eng, tp.Vals, true)
	if r2.Viol == nil || r2.Viol.Fingerprint() != want {
		got := "no violation"
		if r2.Viol != nil {
			got = r2.Viol.Fingerprint()
		}
		return nil, fmt.Sprintf("run %d (seed %d): violation %q did not reproduce from its own tape (got %s): simulator nondeterminism, not reported as a violation", run, seed, want, got)
	}
	var lastLabels []string
	shrink.Labels = func() []string { return lastLabels }
	defer func() { shrink.Labels = nil }()
	test := func(vals []uint64) (bool, int) {
		// keep-alive for the supervisor's watchdog: minimising a long run can
		// take longer than its no-progress limit
		os.Stdout.WriteString("K\n")
		r, t := ReplayVals(eng, vals, true)
		lastLabels = lastLabels[:0]
		for _, e := range t.Rec {
			lastLabels = append(lastLabels, e.Label)
		}
		used := t.Used()
		if t.Overrun > 0 {
			used = len(vals)
		}
		return r.Viol != nil && r.Viol.Fingerprint() == want, used
	}
	min, st := shrink.Minimise(tp.Vals, test, 20000, 40*time.Second)
	rf, tf := ReplayVals(eng, min, true)
	if rf.Viol == nil || rf.Viol.Fingerprint() != want {
		// fall back to the unshrunk tape
		min = tp.Vals
		rf, tf = ReplayVals(eng, min, true)
		if rf.Viol == nil {
			return nil, fmt.Sprintf("run %d: shrunk and original tapes stopped failing: simulator nondeterminism", run)
		}
	}
	file := &ReplayFile{Property: o.Prop, BaseSeed: o.Base, Run: run, RunSeed: seed, Violation: *rf.Viol,
		Tape: min, TapeLabels: tf.Rec, Trace: rf.Trace, Original: len(tp.Vals), GOMAXPROCS: runtime.GOMAXPROCS(0),
		Shrink: map[string]int{"executions": st.Execs, "from": st.From, "to": len(min), "ms": int(st.Elapsed.Milliseconds())}}
	if len(file.TapeLabels) > 3000 {
		file.TapeLabels = file.TapeLabels[:3000]
	}
	path, err := WriteReplay(o.ReplayDir, file, fmt.Sprintf("%s-seed%d-run%d.json", o.Prop, o.Base, run))
	if err != nil {
		return nil, "cannot write replay file: " + err.Error()
	}
	return &ViolReport{Run: run, Fingerprint: want, Class: rf.Viol.Class, Msg: rf.Viol.Msg, Replay: path,
		TapeFrom: len(tp.Vals), TapeTo: len(min), ShrinkExecs: st.Execs}, ""
}
