package runner

import (
	"encoding/json"
	"os"
	"path/filepath"

	"verif/sim/core"
	"verif/sim/tape"
)

// ReplayFile is the on-disk form of a failing run: the minimised choice tape
// is sufficient to re-execute it; everything else is for the reader.
type ReplayFile struct {
	Property   string         `json:"property"`
	BaseSeed   uint64         `json:"base_seed"`
	Run        uint64         `json:"run"`
	RunSeed    uint64         `json:"run_seed"`
	Violation  core.Violation `json:"violation"`
	Tape       []uint64       `json:"tape"`
	TapeLabels []tape.Entry   `json:"tape_labelled,omitempty"`
	Trace      []string       `json:"trace"`
	Shrink     map[string]int `json:"shrink,omitempty"`
	Original   int            `json:"original_tape_len"`
	Note       string         `json:"note,omitempty"`
	// GOMAXPROCS of the worker process that found the violation; replay sets
	// it before executing (code that uses sync.Pool or per-processor state
	// behaves differently under another value)
	GOMAXPROCS int `json:"gomaxprocs,omitempty"`
	// Prelude: tapes of earlier runs of the same worker process that have to
	// be executed, in this order and in the same process, before Tape (state
	// of the code under test that survives between runs: the failing history
	// is the concatenation)
	Prelude     [][]uint64      `json:"prelude_tapes,omitempty"`
	PreludeRuns []uint64        `json:"prelude_runs,omitempty"`
	Extra       json.RawMessage `json:"extra,omitempty"`
}

func WriteReplay(dir string, rf *ReplayFile, name string) (string, error) {
	if err := os.MkdirAll(dir, 0o755); err != nil {
		return "", err
	}
	path := filepath.Join(dir, name)
	b, err := json.MarshalIndent(rf, "", " ")
	if err != nil {
		return "", err
	}
	return path, os.WriteFile(path, b, 0o644)
}

func ReadReplay(path string) (*ReplayFile, error) {
	b, err := os.ReadFile(path)
	if err != nil {
		return nil, err
	}
	var rf ReplayFile
	if err := json.Unmarshal(b, &rf); err != nil {
		return nil, err
	}
	return &rf, nil
}
