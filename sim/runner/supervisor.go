package runner

import (
	"bufio"
	"encoding/json"
	"fmt"
	"os"
	"os/exec"
	"path/filepath"
	"sort"
	"strconv"
	"strings"
	"sync"
	"time"

	"verif/sim/core"
	"verif/sim/shrink"
	"verif/sim/tape"
)

// SupOpts configures a supervisor (one check invocation).
type SupOpts struct {
	Prop      string
	Tier      string
	Base      uint64
	Runs      uint64
	Workers   int
	WallS     float64
	Root      string // /verif
	Exe       string
	ExtraSelf func(prop string) map[string]interface{} // engine-specific evidence additions
}

type workerState struct {
	k        int
	cmd      *exec.Cmd
	lastRun  int64
	lastSeen time.Time
	done     bool
	exitErr  error
	stderr   strings.Builder
	killedAs string
	mu       sync.Mutex
}

// Supervise runs the workers, merges their summaries, writes the evidence file
// and prints KNOWN-FINDING / VIOLATION lines. Exit code: 0 held, 1 violation,
// 2 build/simulator trouble.
func Supervise(o SupOpts) int {
	eng, ok := core.Get(o.Prop)
	if !ok {
		fmt.Fprintf(os.Stderr, "unknown property %s\n", o.Prop)
		return 2
	}
	info := eng.Info()
	start := time.Now()
	if o.Runs == 0 {
		if o.Tier == "thorough" {
			o.Runs = uint64(info.ThoroughRuns)
		} else {
			o.Runs = uint64(info.QuickRuns)
		}
	}
	if o.WallS == 0 {
		if o.Tier == "thorough" {
			o.WallS = float64(info.ThoroughWallS)
		} else {
			o.WallS = float64(info.QuickWallS)
		}
	}
	if o.Workers <= 0 {
		o.Workers = 16
	}
	if uint64(o.Workers) > o.Runs {
		o.Workers = int(o.Runs)
	}
	work := filepath.Join(o.Root, ".work", fmt.Sprintf("%s-%d", o.Prop, os.Getpid()))
	if err := os.MkdirAll(work, 0o755); err != nil {
		fmt.Fprintln(os.Stderr, err)
		return 2
	}
	defer os.RemoveAll(work)
	replayDir := filepath.Join(o.Root, "replays", o.Prop)
	knownPath := filepath.Join(o.Root, "known_findings.json")
	fmt.Printf("geomsim: property=%s tier=%s VERIF_SEED=%d runs=%d workers=%d wall_cap=%.0fs\n", o.Prop, o.Tier, o.Base, o.Runs, o.Workers, o.WallS)

	gmp := []string{"1", "1", "2", "4"}
	ws := make([]*workerState, o.Workers)
	var wg sync.WaitGroup
	for k := 0; k < o.Workers; k++ {
		w := &workerState{k: k, lastRun: -1, lastSeen: time.Now()}
		ws[k] = w
		args := []string{"worker", "-prop", o.Prop, "-base", fmt.Sprint(o.Base), "-from", "0", "-to", fmt.Sprint(o.Runs),
			"-stride", fmt.Sprint(o.Workers), "-offset", fmt.Sprint(k), "-wall", fmt.Sprint(o.WallS),
			"-out", filepath.Join(work, fmt.Sprintf("w%d.json", k)), "-replaydir", replayDir, "-known", knownPath, "-shard", fmt.Sprint(k)}
		w.cmd = workerCmd(o.Exe, args, info.MemLimitMB)
		w.cmd.Env = append(os.Environ(), "GOMAXPROCS="+gmp[k%len(gmp)])
		stdout, err := w.cmd.StdoutPipe()
		if err != nil {
			fmt.Fprintln(os.Stderr, err)
			return 2
		}
		w.cmd.Stderr = &limitedWriter{b: &w.stderr, max: 16384}
		if err := w.cmd.Start(); err != nil {
			fmt.Fprintln(os.Stderr, err)
			return 2
		}
		wg.Add(1)
		go func() {
			defer wg.Done()
			sc := bufio.NewScanner(stdout)
			sc.Buffer(make([]byte, 1<<16), 1<<20)
			for sc.Scan() {
				line := sc.Text()
				if strings.HasPrefix(line, "S ") {
					n, _ := strconv.ParseInt(line[2:], 10, 64)
					w.mu.Lock()
					w.lastRun = n
					w.lastSeen = time.Now()
					w.mu.Unlock()
				} else if line == "K" {
					w.mu.Lock()
					w.lastSeen = time.Now()
					w.mu.Unlock()
				}
			}
			err := w.cmd.Wait()
			w.mu.Lock()
			w.done = true
			w.exitErr = err
			w.mu.Unlock()
		}()
	}
	// watchdog: a run that makes no progress for hangS seconds is a hang
	hangS := 90.0
	stopWatch := make(chan struct{})
	go func() {
		tick := time.NewTicker(time.Second)
		defer tick.Stop()
		for {
			select {
			case <-stopWatch:
				return
			case <-tick.C:
				for _, w := range ws {
					w.mu.Lock()
					if !w.done && time.Since(w.lastSeen).Seconds() > hangS && w.killedAs == "" && w.lastRun >= 0 {
						w.killedAs = "hang"
						w.cmd.Process.Kill()
					}
					w.mu.Unlock()
				}
				if time.Since(start).Seconds() > o.WallS+300 {
					for _, w := range ws {
						w.mu.Lock()
						if !w.done && w.killedAs == "" {
							w.killedAs = "overall-timeout"
							w.cmd.Process.Kill()
						}
						w.mu.Unlock()
					}
				}
			}
		}
	}()
	wg.Wait()
	close(stopWatch)

	// merge
	total := WorkerSummary{Aborted: map[string]int64{}, Faults: map[string]int64{}, Probes: map[string]int64{}, Strategies: map[string]int64{}, Known: map[string]int64{}}
	nt := map[uint64]struct{}{}
	sc := map[uint64]struct{}{}
	st := map[uint64]struct{}{}
	var viols []ViolReport
	trouble := []string{}
	first, last := ^uint64(0), uint64(0)
	stopped := map[string]int{}
	confirmations := map[string]int{}
	for _, w := range ws {
		b, err := os.ReadFile(filepath.Join(work, fmt.Sprintf("w%d.json", w.k)))
		if err != nil {
			// worker died without a summary: crash or hang at run lastRun
			class := "crash"
			if w.killedAs == "hang" {
				class = "hang"
			}
			if w.killedAs == "overall-timeout" {
				trouble = append(trouble, fmt.Sprintf("worker %d killed by the overall timeout", w.k))
				continue
			}
			if ee, ok := w.exitErr.(*exec.ExitError); ok && ee.ExitCode() == 3 {
				trouble = append(trouble, fmt.Sprintf("worker %d: harness panic at run %d (simulator bug, not a violation):\n%s", w.k, w.lastRun, tail(w.stderr.String(), 1500)))
				continue
			}
			if w.lastRun < 0 {
				trouble = append(trouble, fmt.Sprintf("worker %d died before its first run: %v\n%s", w.k, w.exitErr, w.stderr.String()))
				continue
			}
			// confirming means re-executing the run alone (and minimising it);
			// do that for the first two deaths of each kind only — sixteen
			// workers dying of the same cause need not be confirmed sixteen times
			confirmations[class]++
			if confirmations[class] > 2 {
				continue
			}
			vr, tr := confirmCrash(o, info, uint64(w.lastRun), class, replayDir, knownPath, work, w.stderr.String())
			if tr != "" {
				trouble = append(trouble, tr)
			}
			if vr != nil {
				viols = append(viols, *vr)
			}
			continue
		}
		var s WorkerSummary
		if err := json.Unmarshal(b, &s); err != nil {
			trouble = append(trouble, fmt.Sprintf("worker %d summary unreadable: %v", w.k, err))
			continue
		}
		if s.HarnessFail != "" {
			trouble = append(trouble, s.HarnessFail)
		}
		total.Runs += s.Runs
		total.Steps += s.Steps
		total.Events += s.Events
		addMap(total.Aborted, s.Aborted)
		addMap(total.Faults, s.Faults)
		addMap(total.Probes, s.Probes)
		addMap(total.Strategies, s.Strategies)
		addMap(total.Known, s.Known)
		for _, h := range s.NonTrivial {
			nt[h] = struct{}{}
		}
		for _, h := range s.Scheds {
			sc[h] = struct{}{}
		}
		for _, h := range s.States {
			st[h] = struct{}{}
		}
		total.Capped = total.Capped || s.Capped
		if len(total.Samples) < 3 {
			total.Samples = append(total.Samples, s.Samples...)
		}
		viols = append(viols, s.Violations...)
		if s.Runs > 0 {
			if s.FirstRun < first {
				first = s.FirstRun
			}
			if s.LastRun > last {
				last = s.LastRun
			}
		}
		stopped[s.StoppedWhy]++
	}
	if len(total.Samples) > 3 {
		total.Samples = total.Samples[:3]
	}
	wall := time.Since(start).Seconds()

	// confirm every violation by replaying its file in a fresh process
	sort.Slice(viols, func(i, j int) bool { return viols[i].Run < viols[j].Run })
	var confirmed []ViolReport
	seenFP := map[string]bool{}
	for _, v := range viols {
		if seenFP[v.Fingerprint] {
			continue
		}
		seenFP[v.Fingerprint] = true
		out, code := runReplayProcess(o.Exe, v.Replay, info.MemLimitMB)
		if code == 1 {
			confirmed = append(confirmed, v)
		} else if v2, ok := crossRunSearch(o, info, v, code); ok {
			confirmed = append(confirmed, v2)
		} else {
			trouble = append(trouble, fmt.Sprintf("violation %s (run %d) did not reproduce when %s was replayed in a fresh process (exit %d): not reported as a violation\n%s", v.Fingerprint, v.Run, v.Replay, code, tail(out, 800)))
		}
	}

	// evidence
	ev := map[string]interface{}{
		"property_id": o.Prop,
		"tier":        o.Tier,
		"seed":        o.Base,
		"level":       info.Level,
		"wall_s":      round3(wall),
		"violations":  len(confirmed),
		"assumptions": info.Assumptions,
	}
	samples := []interface{}{}
	for _, s := range total.Samples {
		samples = append(samples, s)
	}
	if len(samples) == 0 {
		samples = append(samples, "no non-trivial run completed (see trouble / violations)")
	}
	known := []string{}
	for k := range total.Known {
		known = append(known, k)
	}
	sort.Strings(known)
	evals := total.Runs
	if info.EvalsAreSteps {
		evals = total.Steps
	}
	cov := map[string]interface{}{
		"evaluations":                     evals,
		"distinct_nontrivial":             len(nt),
		"rule":                            info.Rule,
		"samples":                         samples,
		"runs":                            total.Runs,
		"runs_requested":                  o.Runs,
		"runs_per_hour":                   int64(float64(total.Runs) / wall * 3600),
		"seeds":                           map[string]interface{}{"base_seed": o.Base, "derivation": "run seed = splitmix64(base, property, run index); one PCG stream per run", "first_run": first, "last_run": last},
		"sim_steps":                       total.Steps,
		"sim_events_logged":               total.Events,
		"simulated_time":                  info.TimeStatement,
		"faults_fired":                    total.Faults,
		"fault_kinds":                     info.FaultKinds,
		"strategies":                      total.Strategies,
		"distinct_schedules":              map[string]interface{}{"count": len(sc), "measure": info.SchedMeasure},
		"distinct_states":                 map[string]interface{}{"count": len(st), "measure": info.StateMeasure},
		"probes":                          total.Probes,
		"runs_aborted_for_other_property": total.Aborted,
		"real_components":                 info.Real,
		"stub_components":                 info.Stubs,
		"known_findings_seen":             total.Known,
		"workers":                         o.Workers,
		"worker_stop_reasons":             stopped,
		"hash_sets_capped":                total.Capped,
		"exhaustive":                      false,
	}
	if first == ^uint64(0) {
		cov["seeds"].(map[string]interface{})["first_run"] = nil
	}
	if o.ExtraSelf != nil {
		for k, v := range o.ExtraSelf(o.Prop) {
			cov[k] = v
		}
	}
	if len(confirmed) > 0 {
		vs := []interface{}{}
		for _, v := range confirmed {
			vs = append(vs, map[string]interface{}{"fingerprint": v.Fingerprint, "message": v.Msg, "replay": v.Replay, "run": v.Run, "tape_len_before": v.TapeFrom, "tape_len_after": v.TapeTo, "shrink_executions": v.ShrinkExecs})
		}
		cov["violations_found"] = vs
	}
	if len(trouble) > 0 {
		cov["trouble"] = trouble
	}
	ev["coverage"] = cov
	evDir := filepath.Join(o.Root, "evidence")
	os.MkdirAll(evDir, 0o755)
	eb, _ := json.MarshalIndent(ev, "", " ")
	if err := os.WriteFile(filepath.Join(evDir, o.Prop+".json"), eb, 0o644); err != nil {
		fmt.Fprintln(os.Stderr, "cannot write evidence:", err)
		return 2
	}

	fmt.Printf("geomsim: %d runs, %d sim steps, %d distinct non-trivial cases, %d distinct states, %d distinct schedules, %.1fs wall (%d runs/hour)\n",
		total.Runs, total.Steps, len(nt), len(st), len(sc), wall, int64(float64(total.Runs)/wall*3600))
	printMap("faults fired", total.Faults)
	printMap("probes", total.Probes)
	printMap("strategies", total.Strategies)
	if len(total.Aborted) > 0 {
		printMap("runs aborted (other property's failure)", total.Aborted)
	}
	for _, k := range known {
		fmt.Printf("KNOWN-FINDING: property=%s %s (seen in %d runs)\n", o.Prop, k, total.Known[k])
	}
	for _, t := range trouble {
		fmt.Fprintf(os.Stderr, "TROUBLE: %s\n", t)
	}
	for _, v := range confirmed {
		fmt.Printf("violation: %s: %s (tape %d -> %d entries after %d shrink executions)\n", v.Fingerprint, v.Msg, v.TapeFrom, v.TapeTo, v.ShrinkExecs)
		fmt.Printf("VIOLATION property=%s replay=%s\n", o.Prop, v.Replay)
	}
	if len(confirmed) > 0 {
		return 1
	}
	if len(trouble) > 0 || total.Runs == 0 {
		return 2
	}
	fmt.Printf("geomsim: property %s held on everything explored\n", o.Prop)
	return 0
}

func workerCmd(exe string, args []string, memMB int) *exec.Cmd {
	if memMB > 0 {
		q := []string{}
		for _, a := range args {
			q = append(q, "'"+strings.ReplaceAll(a, "'", "'\\''")+"'")
		}
		return exec.Command("/bin/sh", "-c", fmt.Sprintf("ulimit -v %d; exec '%s' %s", memMB*1024, exe, strings.Join(q, " ")))
	}
	return exec.Command(exe, args...)
}

func runReplayProcess(exe, path string, memMB int) (string, int) {
	cmd := workerCmd(exe, []string{"replay", "-quiet", path}, memMB)
	out, err := runWithTimeout(cmd, 150*time.Second)
	code := 0
	if err != nil {
		if ee, ok := err.(*exec.ExitError); ok {
			code = ee.ExitCode()
		} else {
			code = 2
		}
	}
	return string(out), code
}

// confirmCrash re-executes one run alone in a fresh worker; if the process
// dies again the crash is attributed to that run and a seed-only replay file
// is written.
func confirmCrash(o SupOpts, info core.Info, run uint64, class, replayDir, knownPath, work, stderr string) (*ViolReport, string) {
	out := filepath.Join(work, fmt.Sprintf("confirm-%d.json", run))
	journal := filepath.Join(work, fmt.Sprintf("journal-%d.bin", run))
	args := []string{"worker", "-prop", o.Prop, "-base", fmt.Sprint(o.Base), "-from", fmt.Sprint(run), "-to", fmt.Sprint(run + 1),
		"-stride", "1", "-offset", "0", "-wall", "0", "-out", out, "-replaydir", replayDir, "-known", knownPath, "-shard", "-1", "-journal", journal}
	cmd := workerCmd(o.Exe, args, info.MemLimitMB)
	done := make(chan error, 1)
	var buf strings.Builder
	cmd.Stderr = &limitedWriter{b: &buf, max: 16384}
	if err := cmd.Start(); err != nil {
		return nil, err.Error()
	}
	go func() { done <- cmd.Wait() }()
	var err error
	select {
	case err = <-done:
	case <-time.After(100 * time.Second):
		cmd.Process.Kill()
		<-done
		err = fmt.Errorf("hang")
		class = "hang"
	}
	if b, rerr := os.ReadFile(out); rerr == nil {
		var s WorkerSummary
		if json.Unmarshal(b, &s) == nil {
			if len(s.Violations) > 0 {
				return &s.Violations[0], ""
			}
			return nil, fmt.Sprintf("worker died (%s) at run %d but the run completed when re-executed alone; stderr of the first death:\n%s", class, run, tail(stderr, 1500))
		}
	}
	if err == nil {
		return nil, fmt.Sprintf("confirmation of run %d left no summary", run)
	}
	if info.TokenScheduled && strings.Contains(buf.String()+stderr, "all goroutines are asleep") {
		return nil, fmt.Sprintf("run %d: the Go runtime reports 'all goroutines are asleep': a goroutine of the code under test blocked in a synchronisation operation the scheduler was not told about (an unannounced channel, WaitGroup or Cond operation?). This is a gap of the simulator's hooks, not a verdict about the property.", run)
	}
	msg := fmt.Sprintf("worker process died (%s) during run %d, twice (also when re-executed alone): %s", class, run, firstFatal(buf.String()+stderr))
	v := core.Violation{Class: "process-" + class, Msg: msg}
	rf := &ReplayFile{Property: o.Prop, BaseSeed: o.Base, Run: run, RunSeed: tape.RunSeed(o.Base, o.Prop, run), Violation: v,
		Note: "seed-only replay: the process dies before a tape can be saved; replay re-executes the run from run_seed in a child process"}
	// the journalled tape prefix up to the death, minimised by re-executing
	// candidates in child processes (same class = the process dies again)
	if jb, jerr := os.ReadFile(journal); jerr == nil && len(jb) >= 8 && class == "hang" {
		// keep the journalled prefix as the tape (no minimisation: every
		// candidate would cost a full timeout)
		vals := make([]uint64, len(jb)/8)
		for i := range vals {
			for k := 0; k < 8; k++ {
				vals[i] |= uint64(jb[8*i+k]) << (8 * uint(k))
			}
		}
		rf.Tape, rf.Original = vals, len(vals)
		rf.Note = "the process never finishes while executing this tape (journalled prefix up to the hang, not minimised); replay runs it in a child process with a 60 s limit"
	}
	if jb, jerr := os.ReadFile(journal); jerr == nil && len(jb) >= 8 && class == "crash" {
		vals := make([]uint64, len(jb)/8)
		for i := range vals {
			for k := 0; k < 8; k++ {
				vals[i] |= uint64(jb[8*i+k]) << (8 * uint(k))
			}
		}
		tf := filepath.Join(work, fmt.Sprintf("cand-%d.json", run))
		dies := func(c []uint64) (bool, int) {
			b, _ := json.Marshal(c)
			os.WriteFile(tf, b, 0o644)
			cmd := workerCmd(o.Exe, []string{"exec-tape", "-prop", o.Prop, tf}, info.MemLimitMB)
			outb, err := runWithTimeout(cmd, 60*time.Second)
			used := len(c)
			if i := strings.LastIndex(string(outb), "USED "); i >= 0 {
				fmt.Sscanf(string(outb)[i:], "USED %d", &used)
			}
			if err == nil {
				return false, used
			}
			if ee, ok := err.(*exec.ExitError); ok && (ee.ExitCode() == 1 || ee.ExitCode() == 3 || ee.ExitCode() == 4) {
				return false, used
			}
			return true, len(c)
		}
		if d, _ := dies(vals); d {
			min, st := shrink.Minimise(vals, dies, 800, 90*time.Second)
			if d2, _ := dies(min); d2 {
				rf.Tape = min
				rf.Original = len(vals)
				rf.Shrink = map[string]int{"executions": st.Execs, "from": len(vals), "to": len(min), "ms": int(st.Elapsed.Milliseconds())}
				rf.Note = "the process dies while executing this tape; minimised by re-executing candidates in child processes; replay runs it in a child process"
			}
		}
	}
	path, werr := WriteReplay(replayDir, rf, fmt.Sprintf("%s-seed%d-run%d.json", o.Prop, o.Base, run))
	if werr != nil {
		return nil, werr.Error()
	}
	return &ViolReport{Run: run, Fingerprint: v.Fingerprint(), Class: v.Class, Msg: msg, Replay: path, TapeFrom: rf.Original, TapeTo: len(rf.Tape), ShrinkExecs: rf.Shrink["executions"]}, ""
}

func runWithTimeout(cmd *exec.Cmd, d time.Duration) ([]byte, error) {
	var buf strings.Builder
	cmd.Stdout = &limitedWriter{b: &buf, max: 4096}
	if err := cmd.Start(); err != nil {
		return nil, err
	}
	done := make(chan error, 1)
	go func() { done <- cmd.Wait() }()
	select {
	case err := <-done:
		return []byte(buf.String()), err
	case <-time.After(d):
		cmd.Process.Kill()
		<-done
		return []byte(buf.String()), fmt.Errorf("timeout")
	}
}

func firstFatal(s string) string {
	for _, l := range strings.Split(s, "\n") {
		if strings.Contains(l, "fatal error") || strings.Contains(l, "panic:") || strings.Contains(l, "out of memory") {
			return strings.TrimSpace(l)
		}
	}
	return tail(s, 200)
}

type limitedWriter struct {
	b   *strings.Builder
	max int
}

func (l *limitedWriter) Write(p []byte) (int, error) {
	if l.b.Len() < l.max {
		n := l.max - l.b.Len()
		if n > len(p) {
			n = len(p)
		}
		l.b.Write(p[:n])
	}
	return len(p), nil
}

func addMap(dst, src map[string]int64) {
	for k, v := range src {
		dst[k] += v
	}
}

func printMap(title string, m map[string]int64) {
	if len(m) == 0 {
		return
	}
	keys := []string{}
	for k := range m {
		keys = append(keys, k)
	}
	sort.Strings(keys)
	parts := []string{}
	for _, k := range keys {
		parts = append(parts, fmt.Sprintf("%s=%d", k, m[k]))
	}
	fmt.Printf("  %s: %s\n", title, strings.Join(parts, ", "))
}

func tail(s string, n int) string {
	if len(s) <= n {
		return s
	}
	return "…" + s[len(s)-n:]
}

func round3(f float64) float64 { return float64(int64(f*1000)) / 1000 }

// crossRunSearch handles a violation that its worker reproduced from the tape
// but a fresh process does not: the remaining explanation inside the code
// under test is state that survives between runs (a package-level variable,
// a shared default object). The runs that worker executed before the failing
// one are re-executed in fresh child processes followed by the minimised tape;
// if that reproduces the violation the list of earlier runs is minimised
// (ddmin, one fresh process per test) and a replay file with their tapes
// embedded is written and replayed once more. Anything else stays trouble.
func crossRunSearch(o SupOpts, info core.Info, v ViolReport, code int) (ViolReport, bool) {
	if code != 0 || o.Workers <= 0 {
		return v, false
	}
	W := uint64(o.Workers)
	var runs []uint64
	// (the failing run itself is a candidate too: its unminimised tape may have
	// planted the state under which the minimised one, shrunk in the same
	// process, still fails)
	for r := v.Run % W; r <= v.Run; r += W {
		runs = append(runs, r)
	}
	if len(runs) == 0 {
		return v, false
	}
	tests := 0
	deadline := time.Now().Add(6 * time.Minute)
	test := func(list []uint64, write string) bool {
		tests++
		fs := make([]string, len(list))
		for i, r := range list {
			fs[i] = strconv.FormatUint(r, 10)
		}
		args := []string{"exec-seq", "-prop", o.Prop, "-base", fmt.Sprint(o.Base), "-runs", strings.Join(fs, ",")}
		if write != "" {
			args = append(args, "-write", write)
		}
		args = append(args, v.Replay)
		_, err := runWithTimeout(workerCmd(o.Exe, args, info.MemLimitMB), 150*time.Second)
		if ee, ok := err.(*exec.ExitError); ok {
			return ee.ExitCode() == 1
		}
		return false
	}
	if !test(runs, "") {
		return freshShrink(o, info, v)
	}
	n := 2
	for len(runs) >= 2 && tests < 150 && time.Now().Before(deadline) {
		chunk := (len(runs) + n - 1) / n
		reduced := false
		for i := 0; i*chunk < len(runs) && !reduced; i++ {
			hi := (i + 1) * chunk
			if hi > len(runs) {
				hi = len(runs)
			}
			if sub := runs[i*chunk : hi]; len(sub) < len(runs) && test(sub, "") {
				runs, n, reduced = append([]uint64{}, sub...), 2, true
			}
		}
		for i := 0; n > 2 && i*chunk < len(runs) && !reduced; i++ {
			hi := (i + 1) * chunk
			if hi > len(runs) {
				hi = len(runs)
			}
			comp := append(append([]uint64{}, runs[:i*chunk]...), runs[hi:]...)
			if len(comp) > 0 && test(comp, "") {
				runs, reduced = comp, true
				if n > 2 {
					n--
				}
			}
		}
		if !reduced {
			if n >= len(runs) {
				break
			}
			n *= 2
			if n > len(runs) {
				n = len(runs)
			}
		}
	}
	path := strings.TrimSuffix(v.Replay, ".json") + "-with-earlier-runs.json"
	if !test(runs, path) {
		return v, false
	}
	if _, c := runReplayProcess(o.Exe, path, info.MemLimitMB); c != 1 {
		return v, false
	}
	v.Replay = path
	v.Msg = fmt.Sprintf("%s [reproduces only after %d earlier run(s) %v in the same process: state of the code under test survives between runs; %d fresh-process tests]", v.Msg, len(runs), runs, tests)
	return v, true
}

// freshShrink: the last explanation — the run fails on its own, but a
// minimisation candidate executed in the worker process changed surviving
// state, after which everything "failed" and the minimiser returned a tape
// that does not fail alone. The run's own tape is re-executed in a fresh
// process and, if it shows the violation there, minimised with one fresh
// process per candidate.
func freshShrink(o SupOpts, info core.Info, v ViolReport) (ViolReport, bool) {
	path := strings.TrimSuffix(v.Replay, ".json") + "-fresh.json"
	args := []string{"exec-seq", "-prop", o.Prop, "-base", fmt.Sprint(o.Base), "-self", "-write", path, v.Replay}
	_, err := runWithTimeout(workerCmd(o.Exe, args, info.MemLimitMB), 150*time.Second)
	if ee, ok := err.(*exec.ExitError); !ok || ee.ExitCode() != 1 {
		return v, false
	}
	rf, rerr := ReadReplay(path)
	if rerr != nil {
		return v, false
	}
	tf := path + ".cand"
	defer os.Remove(tf)
	fails := func(c []uint64) (bool, int) {
		b, _ := json.Marshal(c)
		os.WriteFile(tf, b, 0o644)
		cmd := workerCmd(o.Exe, []string{"exec-tape", "-prop", o.Prop, "-fp", v.Fingerprint, tf}, info.MemLimitMB)
		if rf.GOMAXPROCS > 0 {
			cmd.Env = append(os.Environ(), fmt.Sprintf("GOMAXPROCS=%d", rf.GOMAXPROCS))
		}
		outb, err := runWithTimeout(cmd, 60*time.Second)
		used := len(c)
		if i := strings.LastIndex(string(outb), "USED "); i >= 0 {
			fmt.Sscanf(string(outb)[i:], "USED %d", &used)
		}
		if ee, ok := err.(*exec.ExitError); ok && ee.ExitCode() == 1 {
			return true, used
		}
		return false, used
	}
	orig := rf.Tape
	if f, _ := fails(orig); f {
		min, st := shrink.Minimise(orig, fails, 1500, 120*time.Second)
		if f2, _ := fails(min); f2 {
			rf.Tape, rf.Original = min, len(orig)
			rf.Shrink = map[string]int{"executions": st.Execs, "from": len(orig), "to": len(min), "ms": int(st.Elapsed.Milliseconds())}
			if _, werr := WriteReplay(filepath.Dir(path), rf, filepath.Base(path)); werr != nil {
				return v, false
			}
		}
	}
	if _, c := runReplayProcess(o.Exe, path, info.MemLimitMB); c != 1 {
		return v, false
	}
	v.Replay, v.TapeFrom, v.TapeTo, v.ShrinkExecs = path, len(orig), len(rf.Tape), rf.Shrink["executions"]
	v.Msg += " [minimised in fresh child processes: candidates executed inside the worker changed state of the code under test that survives between runs]"
	return v, true
}
