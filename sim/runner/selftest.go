package runner

import (
	"fmt"
	"os"
	"os/exec"
	"strings"
	"sync"
	"time"
)

const selfTestTimeout = 75 * time.Second

// SelfTest proves replay determinism on a sample: the same runs are executed
// in procs fresh processes spread over real GOMAXPROCS 1/4/16 and the
// event-log hash of every run must agree across all of them.
func SelfTest(exe, prop string, base uint64, nRuns, procs int, memMB int) (map[string]interface{}, error) {
	gmps := []string{"1", "4", "16"}
	outs := make([]string, procs)
	errs := make([]error, procs)
	var wg sync.WaitGroup
	sem := make(chan struct{}, 16)
	for p := 0; p < procs; p++ {
		wg.Add(1)
		go func(p int) {
			defer wg.Done()
			sem <- struct{}{}
			defer func() { <-sem }()
			args := []string{"worker", "-prop", prop, "-base", fmt.Sprint(base), "-from", "0", "-to", fmt.Sprint(nRuns), "-stride", "1", "-offset", "0", "-hash"}
			cmd := workerCmd(exe, args, memMB)
			cmd.Env = append(os.Environ(), "GOMAXPROCS="+gmps[p%len(gmps)])
			var sb strings.Builder
			cmd.Stdout = &sb
			var eb strings.Builder
			cmd.Stderr = &limitedWriter{b: &eb, max: 4096}
			// a run that never returns (an endless loop in the code under test)
			// must not hang the self-test: the main run's watchdog attributes it
			done := make(chan error, 1)
			if err := cmd.Start(); err != nil {
				errs[p] = err
				return
			}
			go func() { done <- cmd.Wait() }()
			var err error
			select {
			case err = <-done:
			case <-time.After(selfTestTimeout):
				cmd.Process.Kill()
				<-done
				err = fmt.Errorf("no result within %v (a run does not terminate; the main run will attribute it)", selfTestTimeout)
			}
			if err != nil {
				if _, ok := err.(*exec.ExitError); ok {
					errs[p] = fmt.Errorf("selftest process %d: %v: %s", p, err, eb.String())
				} else {
					errs[p] = err
				}
			}
			var hs []string
			for _, l := range strings.Split(sb.String(), "\n") {
				if strings.HasPrefix(l, "H ") {
					hs = append(hs, l)
				}
			}
			outs[p] = strings.Join(hs, "\n")
		}(p)
	}
	wg.Wait()
	for _, e := range errs {
		if e != nil {
			return nil, e
		}
	}
	ref := strings.Split(outs[0], "\n")
	if len(ref) != nRuns {
		return nil, fmt.Errorf("selftest: process 0 reported %d runs, want %d", len(ref), nRuns)
	}
	for p := 1; p < procs; p++ {
		got := strings.Split(outs[p], "\n")
		if len(got) != len(ref) {
			return nil, fmt.Errorf("selftest: process %d reported %d runs, process 0 %d", p, len(got), len(ref))
		}
		for i := range ref {
			if got[i] != ref[i] {
				return nil, fmt.Errorf("NONDETERMINISM: run line %q (process 0, GOMAXPROCS=1) vs %q (process %d, GOMAXPROCS=%s)", ref[i], got[i], p, gmps[p%len(gmps)])
			}
		}
	}
	return map[string]interface{}{
		"runs_compared":  nRuns,
		"processes":      procs,
		"gomaxprocs":     gmps,
		"compared":       "FNV-1a hash of the complete event log of each run (every operation, result, scheduler step and fault) and its event count",
		"all_identical":  true,
		"sample_hash_l0": ref[0],
	}, nil
}
