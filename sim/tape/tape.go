// Package tape is the single source of every decision a simulated run takes:
// generated operations and arguments, scheduler choices, fault kinds and
// positions. In record mode values come from a PCG stream seeded from one
// integer; in replay mode they come from a recorded slice. Nothing here reads
// a clock and logging never draws.
package tape

import (
	"math"
	"os"
)

// pcg32 (XSH-RR 64/32), written out so that no library RNG version matters.
type pcg struct{ state, inc uint64 }

func (p *pcg) next32() uint32 {
	old := p.state
	p.state = old*6364136223846793005 + p.inc
	xs := uint32(((old >> 18) ^ old) >> 27)
	rot := uint32(old >> 59)
	return (xs >> rot) | (xs << ((-rot) & 31))
}

func (p *pcg) next64() uint64 { return uint64(p.next32())<<32 | uint64(p.next32()) }

// SplitMix64 is used to derive per-run seeds from (base seed, property, run).
func SplitMix64(x uint64) uint64 {
	x += 0x9e3779b97f4a7c15
	z := x
	z = (z ^ (z >> 30)) * 0xbf58476d1ce4e5b9
	z = (z ^ (z >> 27)) * 0x94d049bb133111eb
	return z ^ (z >> 31)
}

// RunSeed derives the seed of run i of a property from the base seed.
func RunSeed(base uint64, prop string, run uint64) uint64 {
	h := SplitMix64(base ^ 0x5851f42d4c957f2d)
	for _, c := range []byte(prop) {
		h = SplitMix64(h ^ uint64(c))
	}
	return SplitMix64(h ^ SplitMix64(run))
}

// Entry is one recorded decision.
type Entry struct {
	Label string `json:"l"`
	N     uint64 `json:"n"` // arity (0 = full 63-bit range)
	V     uint64 `json:"v"`
}

// Tape records or replays decisions.
type Tape struct {
	rng     *pcg
	replay  []uint64
	pos     int
	Rec     []Entry
	KeepRec bool // keep labels (for replay files); values are always kept
	Vals    []uint64
	// Journal, when set, is called before every draw with the values so far
	// flushed lazily by the engines (crash attribution).
	Overrun int // number of draws past the end of a replayed tape
	// Journal, when set, receives every drawn value at once (8 bytes, little
	// endian, unbuffered): the tape of a run that kills its process survives.
	Journal *os.File
}

// New returns a recording tape.
func New(seed uint64) *Tape {
	p := &pcg{inc: (SplitMix64(seed) << 1) | 1}
	p.state = SplitMix64(seed ^ 0xda3e39cb94b95bdb)
	p.next32()
	return &Tape{rng: p}
}

// Replay returns a tape that replays vals (value mod arity; 0 past the end).
func Replay(vals []uint64) *Tape {
	return &Tape{replay: append([]uint64(nil), vals...)}
}

// Replaying reports whether the tape is in replay mode.
func (t *Tape) Replaying() bool { return t.rng == nil }

func (t *Tape) draw(n uint64, label string) uint64 {
	var v uint64
	if t.rng != nil {
		v = t.rng.next64() >> 1
		if n != 0 {
			v %= n
		}
	} else {
		if t.pos < len(t.replay) {
			v = t.replay[t.pos]
			if n != 0 {
				v %= n
			} else {
				v &= math.MaxInt64
			}
		} else {
			t.Overrun++
		}
		t.pos++
	}
	t.Vals = append(t.Vals, v)
	if t.Journal != nil {
		var b [8]byte
		for i := 0; i < 8; i++ {
			b[i] = byte(v >> (8 * uint(i)))
		}
		t.Journal.Write(b[:])
	}
	if t.KeepRec {
		t.Rec = append(t.Rec, Entry{label, n, v})
	}
	return v
}

// Choose returns a value in [0,n). n<=1 returns 0 without consuming the tape.
func (t *Tape) Choose(n int, label string) int {
	if n <= 1 {
		return 0
	}
	return int(t.draw(uint64(n), label))
}

// Bool is Choose(2)==1.
func (t *Tape) Bool(label string) bool { return t.Choose(2, label) == 1 }

// OneIn returns true with probability 1/n (value 0 = false, the simple case).
func (t *Tape) OneIn(n int, label string) bool {
	if n <= 1 {
		return true
	}
	return t.Choose(n, label) == n-1
}

// More is the loop-continuation draw: false (stop) when the value is 0, so a
// shrunk tape means fewer iterations. Expected iterations: mean-1.
func (t *Tape) More(mean int, label string) bool {
	if mean <= 1 {
		return false
	}
	return t.Choose(mean, label) != 0
}

// Bits returns a 63-bit value.
func (t *Tape) Bits(label string) uint64 { return t.draw(0, label) }

// Unit returns a float in [0,1) with 30 bits (0 is the simple case).
func (t *Tape) Unit(label string) float64 {
	return float64(t.Choose(1<<30, label)) / float64(1<<30)
}

// Range returns an int in [lo,hi].
func (t *Tape) Range(lo, hi int, label string) int {
	if hi <= lo {
		return lo
	}
	return lo + t.Choose(hi-lo+1, label)
}

// Perm returns a permutation of 0..n-1 (Fisher-Yates; all zeros = identity).
func (t *Tape) Perm(n int, label string) []int {
	p := make([]int, n)
	for i := range p {
		p[i] = i
	}
	for i := 0; i < n-1; i++ {
		j := i + t.Choose(n-i, label)
		p[i], p[j] = p[j], p[i]
	}
	return p
}

// Used returns how many draws were made.
func (t *Tape) Used() int { return len(t.Vals) }
