// Package shrink minimises a failing choice tape by delta debugging: shortest
// failing prefix, block deletion, then lowering individual values. A candidate
// is accepted only when the same violation class recurs.
package shrink

import (
	"sort"
	"time"
)

// Test re-executes the system from a candidate tape and reports whether the
// same violation class occurs; used is how many values the run consumed.
type Test func(vals []uint64) (same bool, used int)

// Labels, when set by the caller, returns the decision labels of the tape that
// was executed last by Test (one per consumed value). They let the minimiser
// delete whole generated units (an operation, a phase, a client turn): every
// label that occurs at least twice is tried as a unit boundary.
var Labels func() []string

type Stats struct {
	Execs    int
	From, To int
	Elapsed  time.Duration
}

// Minimise returns a (locally) minimal tape. Wall-clock is only a budget for
// the shrinker itself; it never influences a simulated run.
func Minimise(vals []uint64, test Test, maxExecs int, maxDur time.Duration) ([]uint64, Stats) {
	start := time.Now()
	st := Stats{From: len(vals)}
	cur := append([]uint64(nil), vals...)
	over := func() bool { return st.Execs >= maxExecs || time.Since(start) > maxDur }
	try := func(c []uint64) bool {
		if over() {
			return false
		}
		st.Execs++
		ok, used := test(c)
		if ok {
			if used < len(c) {
				c = c[:used]
			}
			cur = append(cur[:0:0], c...)
			return true
		}
		return false
	}
	// normalise to what is actually consumed
	try(cur)
	// 1. shortest failing prefix (zeros after): binary search then linear polish
	lo, hi := 0, len(cur)
	for lo < hi && !over() {
		mid := (lo + hi) / 2
		if try(cur[:mid]) {
			hi = len(cur)
			if hi > mid {
				hi = mid
			}
		} else {
			lo = mid + 1
		}
	}
	improved := true
	for improved && !over() {
		improved = false
		// 1b. delete whole units delimited by a repeating label
		if Labels != nil {
			try(cur) // refresh labels for the current tape
			labs := append([]string(nil), Labels()...)
			count := map[string]int{}
			for _, l := range labs {
				count[l]++
			}
			var cands []string
			for l, c := range count {
				if c >= 2 && c <= len(labs)/2+1 {
					cands = append(cands, l)
				}
			}
			sort.Slice(cands, func(i, j int) bool {
				if count[cands[i]] != count[cands[j]] {
					return count[cands[i]] < count[cands[j]] // coarse units first
				}
				return cands[i] < cands[j]
			})
			if len(cands) > 10 {
				cands = cands[:10]
			}
			for _, l := range cands {
				if over() {
					break
				}
				// walk the units from the last to the first
				for pass := 0; pass < 2 && !over(); pass++ {
					var starts []int
					for i, x := range labs {
						if x == l && i < len(cur) {
							starts = append(starts, i)
						}
					}
					removed := false
					for k := len(starts) - 1; k >= 0 && !over(); k-- {
						a := starts[k]
						b := len(cur)
						if k+1 < len(starts) {
							b = starts[k+1]
						}
						if a >= len(cur) || b > len(cur) || a >= b {
							continue
						}
						c := append(append([]uint64(nil), cur[:a]...), cur[b:]...)
						if try(c) {
							improved, removed = true, true
							labs = append([]string(nil), Labels()...)
							break // indices changed: recompute the unit starts
						}
					}
					if !removed {
						break
					}
					pass = -1 // keep going while units can be removed
				}
			}
		}
		// 2. delete blocks
		for _, bs := range []int{64, 16, 8, 4, 3, 2, 1} {
			for i := len(cur) - bs; i >= 0 && !over(); i -= bs {
				if i+bs > len(cur) {
					continue
				}
				c := append(append([]uint64(nil), cur[:i]...), cur[i+bs:]...)
				if try(c) {
					improved = true
				}
			}
		}
		// 3. zero blocks, then lower single values
		for _, bs := range []int{8, 2} {
			for i := 0; i+bs <= len(cur) && !over(); i += bs {
				allZero := true
				for _, v := range cur[i : i+bs] {
					if v != 0 {
						allZero = false
					}
				}
				if allZero {
					continue
				}
				c := append([]uint64(nil), cur...)
				for k := i; k < i+bs; k++ {
					c[k] = 0
				}
				if try(c) {
					improved = true
				}
			}
		}
		for i := 0; i < len(cur) && !over(); i++ {
			if cur[i] == 0 {
				continue
			}
			c := append([]uint64(nil), cur...)
			c[i] = 0
			if try(c) {
				improved = true
				continue
			}
			// binary search the smallest failing value
			l, h := uint64(1), cur[i]
			for l < h && !over() {
				m := l + (h-l)/2
				c := append([]uint64(nil), cur...)
				if i >= len(c) {
					break
				}
				c[i] = m
				if try(c) {
					improved = true
					h = m
					if i < len(cur) && cur[i] < h {
						h = cur[i]
					}
				} else {
					l = m + 1
				}
			}
		}
	}
	st.To = len(cur)
	st.Elapsed = time.Since(start)
	return cur, st
}
