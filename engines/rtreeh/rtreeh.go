// Package rtreeh drives index/rtree through seeded insert/delete/query
// histories against a brute-force multiset model (properties C11 and C12).
//
// Honest scope: the tree has no locks, no I/O and no clock; there is one
// simulated client and no fault kind exists. The simulator owns what the
// properties quantify over: the history (operation sequence, object identities,
// branching parameters), replayable and minimisable from the tape.
package rtreeh

import (
	"fmt"
	"math"
	"os"
	"reflect"
	"sort"

	"github.com/ctessum/geom"
	"github.com/ctessum/geom/index/rtree"

	"verif/sim/core"
	"verif/sim/tape"
)

func init() {
	core.Register("C11", func() core.Engine { return &engine{prop: "C11"} })
	core.Register("C12", func() core.Engine { return &engine{prop: "C12"} })
}

type engine struct{ prop string }

// forceDeep (env VERIF_RTREE_DEEP, sensitivity experiments only) makes every
// eligible history a deep-churn history.
var forceDeep = os.Getenv("VERIF_RTREE_DEEP") != ""

func (e *engine) Info() core.Info {
	in := core.Info{
		Prop:  e.prop,
		Level: "exploration",
		Real:  []string{"index/rtree (all of it: Insert, Delete, condenseTree, split, SearchIntersect, NearestNeighbor(s), geom.go predicates)", "geom.Bounds / geom.Point Bounds()"},
		Stubs: []string{"none (the only simulator-owned inputs are the history and the branching parameters)"},
		FaultKinds: []string{
			"none exists for this component: no I/O, no clock, no concurrency; 'delete-absent' operations (never inserted / already deleted / equal box different identity) are the only adversarial events",
		},
		StateMeasure:  "distinct tree-shape signatures (fan-out of every node in pre-order + leaf depth) observed after operations",
		SchedMeasure:  "not applicable (single client); distinct histories = distinct hashes of the operation/result log",
		TimeStatement: "no clock exists in index/rtree; simulated time = number of operations applied",
		Assumptions: []string{
			"objects are comparable (pointers and Point values) with valid boxes Min<=Max and finite coordinates, as the property states",
			"coordinate magnitudes: ordinary scales in most runs; for C11 also whole histories at scales 1e-160..1e150 and single trees mixing magnitudes from 1e-160 to 1e150 (areas and area ratios at both ends of the float64 range); for C12 only 1e-100..1e150, because where squared coordinate differences underflow (two coordinates one ulp apart at scale 1e-157) the unchanged library already ranks distinct distances as equal — a float-range limit observed in an experiment, not claimed",
			"the multiset model and the oracle's own distance/intersection predicates (written independently of index/rtree/geom.go) are correct",
			"structural invariants are read through the add-only verif hook index/rtree/walk_verif.go (read-only walk)",
		},
		QuickRuns: 45000, ThoroughRuns: 2500000, QuickWallS: 75, ThoroughWallS: 1500,
	}

	if e.prop == "C11" {
		in.Rule = "a case is one seeded history (<=400 ops, one run in 300 up to 7000 ops: insert (also of an already stored object), delete present/absent, intersect queries, over phases grow/churn/drain/drain-all/refill, random branching parameters 2<=min<=max/2, grid or float coordinates, pointer/point/degenerate objects, fan-outs up to 140, and one history in twelve insert-only over slice-typed (uncomparable) geometries); non-trivial = the tree reached depth>=2 AND at least one delete of a stored object happened on a multi-level tree; distinct = distinct hash of the full operation+result log"
	} else {
		in.Rule = "a case is one seeded history (<=400 ops, one run in 300 up to 7000 ops, same generator as C11) with nearest-neighbour and k-nearest queries after mutations; non-trivial = at least one NN/kNN query was answered on a tree of depth>=2 that had already seen a delete; distinct = distinct hash of the full operation+result log"
	}
	return in
}

type stored struct {
	obj geom.Geom
	bb  geom.Bounds
	id  int // creation index (for the trace only)
}

type run struct {
	wide      bool
	wideMags  []float64
	forceWalk bool
	mixed     bool // coordinates of very different magnitudes within one tree
	ring      bool // most objects are points on one circle (equidistant from its centre)
	huge      bool // tens of thousands of objects, very large fan-out, checks at the end only
	ringR     float64
	// an earlier answer must stay the answer it was: the slice a query
	// returned is kept, with a copy, and re-examined after later operations
	heldRes  []geom.Geom
	heldCopy []geom.Geom
	heldWhat string

	prop                                   string
	t                                      *tape.Tape
	log                                    *core.Log
	res                                    *core.Result
	tree                                   *rtree.Rtree
	min                                    int
	max                                    int
	model                                  []stored
	dead                                   []stored // deleted objects (for delete-absent)
	next                                   int
	grid                                   int // 0 = float coords, else grid size
	scale                                  float64
	bulk                                   bool // long history: structural walk only on every 61st mutation
	slices                                 bool // objects are slice-typed geometries (not comparable): insert-only history
	nMut                                   int
	seenDelete, seenMultiDelete, nnOnMulti bool
	lastDepth                              int
	states                                 map[uint64]struct{}
}

func (e *engine) Run(t *tape.Tape, trace bool) core.Result {
	res := core.Result{}
	r := &run{prop: e.prop, t: t, log: core.NewLog(trace), res: &res, states: map[uint64]struct{}{}}
	r.exec()
	res.LogHash = r.log.Hash()
	res.Events = r.log.Count()
	res.CaseHash = res.LogHash
	res.Trace = r.log.Lines
	for s := range r.states {
		res.States = append(res.States, s)
	}
	sort.Slice(res.States, func(i, j int) bool { return res.States[i] < res.States[j] })
	if e.prop == "C11" {
		res.NonTrivial = r.seenMultiDelete
	} else {
		res.NonTrivial = r.nnOnMulti
	}
	return res
}

func (r *run) fail(class, detail, format string, a ...interface{}) {
	if r.res.Viol == nil {
		r.res.Viol = &core.Violation{Class: class, Detail: detail, Msg: fmt.Sprintf(format, a...)}
		r.log.Violation(class, r.res.Viol.Msg)
		if r.log.Keep && r.tree != nil {
			core.Protect(func() {
				r.log.Note("tree at violation: Size()=%d Depth()=%d", r.tree.Size(), r.tree.Depth())
				r.tree.VerifWalk(func(n rtree.VerifNode) {
					r.log.Note("  node#%d parent#%d depth=%d level=%d leaf=%v entries=%d", n.ID, n.Parent, n.Depth, n.Level, n.Leaf, len(n.Entries))
				})
			})
		}
	}
}

// Magnitudes at the ends of the float64 range (areas and area ratios overflow
// or go subnormal there). The nearest-neighbour property is only checked where
// the squares of coordinate differences are normal numbers: at scales around
// 1e-157 two coordinates one ulp apart are 1e-172 apart, the library's squared
// distance underflows to 0 and the unchanged tree already ranks them as equal
// (observed; a float-range limit, stated under assumptions).
var extremeMags = []float64{1e-160, 1e-100, 1e-5, 1, 1e100, 1e150}
var extremeScales = []float64{1e-157, 1e-160, 1e-150, 1e100, 1e150}
var extremeMagsNN = []float64{1e-100, 1e-5, 1, 1e100, 1e150}
var extremeScalesNN = []float64{1e-100, 1e-60, 1e100, 1e150}

func (r *run) coord(label string) float64 {
	if r.mixed {
		// one tree, magnitudes from 1e-8 to 1e9
		m := []float64{1e-8, 1e-3, 1, 1, 1e3, 1e9}[r.t.Choose(6, "coord-mag")]
		if r.wide {
			m = r.wideMags[r.t.Choose(len(r.wideMags), "coord-mag-wide")]
		}
		return float64(r.t.Choose(40, label)) * m
	}
	if r.grid > 0 {
		return float64(r.t.Choose(r.grid, label)) * r.scale
	}
	// floats with a few decimal digits and occasionally many
	if r.t.OneIn(4, "coord-fine") {
		return r.t.Unit(label) * 100
	}
	return float64(r.t.Choose(10000, label)) / 100
}

func (r *run) newObj() stored {
	kind := r.t.Choose(4, "obj-kind") // 0 box ptr, 1 point value, 2 degenerate box ptr, 3 copy of an existing box (coincident)
	id := r.next
	r.next++
	if r.ring && !r.slices && !r.t.OneIn(8, "ring-off") {
		// a point on the circle of radius ringR around (0,0): equidistant from
		// the centre, so that nothing can be pruned for queries there
		a := float64(r.t.Choose(100000, "ring-angle")) * 2 * math.Pi / 100000
		p := geom.Point{X: r.ringR * math.Cos(a), Y: r.ringR * math.Sin(a)}
		return stored{obj: p, bb: geom.Bounds{Min: p, Max: p}, id: id}
	}
	// (empty geometries are deliberately not generated: their box contains no
	// point, index/rtree on the unchanged tree cannot choose a node for them
	// once a subtree holds nothing else, and the properties quantify over
	// objects that have a box)
	if r.slices {
		// a slice-typed geometry stored by value: cannot be compared with ==
		// (so it can never be deleted), but is a legal object to insert and find
		n := 1 + r.t.Choose(3, "slice-len")
		pts := make([]geom.Point, n)
		for i := range pts {
			pts[i] = geom.Point{X: r.coord("sx"), Y: r.coord("sy")}
		}
		if len(r.model) > 0 && r.t.OneIn(3, "slice-coincide") {
			// same vertices as an existing object: equal boxes, equal distances
			switch o := r.model[r.t.Choose(len(r.model), "slice-coincide-with")].obj.(type) {
			case geom.LineString:
				pts = append([]geom.Point{}, o...)
			case geom.MultiPoint:
				pts = append([]geom.Point{}, o...)
			case geom.Polygon:
				pts = append([]geom.Point{}, o[0]...)
			}
		}
		var g geom.Geom
		switch r.t.Choose(3, "slice-type") {
		case 0:
			g = geom.LineString(pts)
		case 1:
			g = geom.MultiPoint(pts)
		default:
			g = geom.Polygon{pts}
		}
		bb := geom.Bounds{Min: pts[0], Max: pts[0]}
		for _, p := range pts[1:] {
			bb.Min.X, bb.Min.Y = math.Min(bb.Min.X, p.X), math.Min(bb.Min.Y, p.Y)
			bb.Max.X, bb.Max.Y = math.Max(bb.Max.X, p.X), math.Max(bb.Max.Y, p.Y)
		}
		return stored{obj: g, bb: bb, id: id}
	}
	switch kind {
	case 1:
		p := geom.Point{X: r.coord("px"), Y: r.coord("py")}
		return stored{obj: p, bb: geom.Bounds{Min: p, Max: p}, id: id}
	case 2:
		p := geom.Point{X: r.coord("px"), Y: r.coord("py")}
		b := &geom.Bounds{Min: p, Max: p}
		if r.t.Bool("degenerate-line") {
			b.Max.X += float64(r.t.Range(0, 3, "len")) * r.scale
		}
		return stored{obj: b, bb: *b, id: id}
	case 3:
		if len(r.model) > 0 {
			o := r.model[r.t.Choose(len(r.model), "coincide-with")]
			b := &geom.Bounds{Min: o.bb.Min, Max: o.bb.Max}
			return stored{obj: b, bb: *b, id: id}
		}
		fallthrough
	default:
		x, y := r.coord("bx"), r.coord("by")
		var w, h float64
		if r.grid > 0 {
			w, h = float64(r.t.Range(0, 4, "bw"))*r.scale, float64(r.t.Range(0, 4, "bh"))*r.scale
		} else {
			w, h = r.t.Unit("bw")*10, r.t.Unit("bh")*10
		}
		b := &geom.Bounds{Min: geom.Point{X: x, Y: y}, Max: geom.Point{X: x + w, Y: y + h}}
		return stored{obj: b, bb: *b, id: id}
	}
}

func objStr(s stored) string {
	switch s.obj.(type) {
	case geom.Point:
		return fmt.Sprintf("pt#%d(%g,%g)", s.id, s.bb.Min.X, s.bb.Min.Y)
	default:
		return fmt.Sprintf("box#%d[%g,%g,%g,%g]", s.id, s.bb.Min.X, s.bb.Min.Y, s.bb.Max.X, s.bb.Max.Y)
	}
}

// oracle predicates, written independently of index/rtree/geom.go
func boxesTouch(a, b geom.Bounds) bool {
	xOverlap := a.Min.X <= b.Max.X && b.Min.X <= a.Max.X
	yOverlap := a.Min.Y <= b.Max.Y && b.Min.Y <= a.Max.Y
	return xOverlap && yOverlap
}

func boxDist(p geom.Point, b geom.Bounds) float64 {
	dx := math.Max(math.Max(b.Min.X-p.X, p.X-b.Max.X), 0)
	dy := math.Max(math.Max(b.Min.Y-p.Y, p.Y-b.Max.Y), 0)
	return math.Hypot(dx, dy)
}

func distEq(a, b float64) bool {
	if a == b {
		return true
	}
	return math.Abs(a-b) <= 1e-12*math.Max(math.Abs(a), math.Abs(b))
}

func (r *run) exec() {
	t := r.t
	// configuration: branching parameters 2 <= min <= max/2
	switch t.Choose(6, "cfg-max-kind") {
	case 0:
		r.max = 4
	case 1:
		r.max = 5 + t.Choose(4, "cfg-max")
	case 2:
		r.max = 9 + t.Choose(8, "cfg-max")
	case 3:
		r.max = 50
	case 4:
		// any fan-out up to 140 (powers of two and their neighbours included)
		r.max = []int{31, 32, 33, 63, 64, 65, 100, 127, 128, 129, 17 + t.Choose(124, "cfg-max-any")}[t.Choose(11, "cfg-max-large")]
	default:
		r.max = 4 + t.Choose(5, "cfg-max")
	}
	r.min = 2 + t.Choose(r.max/2-1, "cfg-min")
	if r.max > 16 && t.Bool("cfg-min-half") {
		r.min = r.max / 2
	}
	if r.max == 50 && t.Bool("cfg-route-params") {
		r.min = 25
	}
	r.scale = 1
	if t.Choose(3, "cfg-coords") != 2 {
		r.grid = 4 + t.Choose(13, "cfg-grid")
		// grid spacing: 1 (integer ties), dyadic and non-dyadic fractions
		// (sub-unit distances, rounding), and a large spacing
		r.scale = []float64{1, 1, 0.125, 0.1, 1.0 / 3, 1000}[t.Choose(6, "cfg-scale")]
	}
	r.slices = t.OneIn(12, "cfg-uncomparable-objects")
	r.mixed = t.OneIn(15, "cfg-mixed-magnitudes")
	if r.mixed {
		r.grid = 0
		r.res.Probe("mixed-magnitude-history")
		if t.OneIn(2, "cfg-wide-magnitudes") {
			r.wide = true
			r.wideMags = extremeMags
			if r.prop != "C11" {
				r.wideMags = extremeMagsNN
			}
			r.res.Probe("magnitudes-hundreds-of-decades-apart")
		}
	} else if r.grid > 0 && t.OneIn(10, "cfg-extreme-scale") {
		es := extremeScales
		if r.prop != "C11" {
			es = extremeScalesNN
		}
		r.scale = es[t.Choose(len(es), "cfg-extreme-scale-v")]
		r.res.Probe("extreme-coordinate-scale")
	}
	if t.OneIn(12, "cfg-ring") {
		r.ring, r.ringR = true, []float64{1, 100, 0.5, 1000}[t.Choose(4, "cfg-ring-r")]
		r.res.Probe("ring-history(equidistant objects)")
	}
	if r.ring && r.max >= 64 {
		// equidistant objects AND a fan-out above 64: make the history long
		// enough for nodes to really hold that many children
		r.bulk = true
	}
	if t.OneIn(25000, "cfg-huge") {
		// far beyond the usual sizes: a fan-out of several hundred and enough
		// objects for a node to really hold that many children
		r.huge, r.slices, r.mixed = true, false, false
		r.max = []int{300, 400, 512}[t.Choose(3, "cfg-huge-max")]
		r.min = 2
		r.res.Probe("huge-history(fan-out>=300, ~90k objects)")
	}
	r.log.Eventf("config min=%d max=%d grid=%d scale=%g uncomparable=%v", r.min, r.max, r.grid, r.scale, r.slices)
	if r.slices {
		r.res.Probe("history-with-uncomparable-objects(insert-only)")
	}
	if p, v, st := core.Protect(func() { r.tree = rtree.NewTree(r.min, r.max) }); p {
		r.fail("panic", "NewTree", "NewTree(%d,%d) panicked: %v %s", r.min, r.max, v, core.TrimStack(st, 3))
		return
	}
	budget := 400
	if r.max >= 30 {
		budget = 700 + 6*r.max // large fan-outs need more objects before anything splits
	}
	if t.OneIn(300, "cfg-bulk") || r.bulk {
		// a long history (thousands of objects): three and more levels also
		// for large fan-outs; the O(n) structural walk runs on every 61st
		// mutation only (Size, Delete results and queries are still checked
		// on every operation)
		r.bulk = true
		budget = 7000
		r.res.Probe("bulk-history")
	}
	ops := 0
	r.afterOp("init")
	if r.huge {
		r.hugeRun()
		r.res.Steps = int64(len(r.model))
		return
	}
	if deep := t.OneIn(3, "cfg-deep-churn"); !r.bulk && !r.slices && r.max <= 8 && (deep || forceDeep) {
		// deep-churn shape: fill a small-fan-out tree to 50-130 objects (four
		// and more levels), then churn at that population — elimination
		// cascades, orphans re-inserted across subtrees, root splits caused by
		// a Delete — with queries after every few mutations
		target := 50 + t.Choose(80, "deep-target")
		for len(r.model) < target && r.res.Viol == nil && r.res.Aborted == "" {
			ops++
			r.insert()
		}
		r.res.Probe("deep-churn-history")
		churn := 40 + t.Choose(160, "deep-churn-ops")
		order := t.Choose(4, "deep-del-order")
		for i := 0; i < churn && r.res.Viol == nil && r.res.Aborted == ""; i++ {
			ops++
			switch t.Choose(7, "deep-op") {
			case 0, 1, 2:
				r.deletePresent(order)
			case 3, 4:
				r.insert()
			default:
				r.query()
			}
		}
		budget = ops + 120
	}
	for r.res.Viol == nil && r.res.Aborted == "" && ops < budget {
		// phase
		phase := t.Choose(6, "phase") // 0 grow,1 churn,2 drain,3 drain-all,4 refill-burst,5 queries
		if r.slices && phase >= 1 && phase <= 3 {
			phase = 5 * (phase % 2) // insert-only: grow or query
		}
		n := 1 + t.Choose(40, "phase-len")
		if phase == 0 && r.max >= 30 {
			n += 2 * r.max
		}
		if r.bulk {
			n *= 25
			if phase == 5 {
				n = 20
			}
		}
		if phase == 3 {
			n = len(r.model) + 1 // until empty
		}
		order := t.Choose(4, "del-order")
		for i := 0; i < n && r.res.Viol == nil && r.res.Aborted == "" && ops < budget; i++ {
			ops++
			switch phase {
			case 0, 4:
				if t.OneIn(8, "grow-query") {
					r.query()
				} else {
					r.insert()
				}
			case 1:
				switch t.Choose(5, "churn-op") {
				case 0, 1:
					r.insert()
				case 2:
					r.deletePresent(order)
				case 3:
					r.deleteAbsent()
				default:
					r.query()
				}
			case 2:
				if t.OneIn(6, "drain-query") {
					r.query()
				} else {
					r.deletePresent(order)
				}
			case 3:
				r.deletePresent(order)
				if t.OneIn(5, "drainall-query") {
					r.query()
				}
			default:
				r.query()
			}
		}
		mean := 8
		if r.bulk {
			mean = 40
		}
		if !t.More(mean, "more-phases") {
			break
		}
	}
	// final sweep of queries
	if r.res.Viol == nil && r.res.Aborted == "" {
		for i := 0; i < 3 && r.res.Viol == nil; i++ {
			r.query()
		}
	}
	r.res.Steps = int64(ops)
}

// hugeRun inserts ~90 000 objects without per-operation checks, then runs the
// full structural walk once and a handful of queries, deletes a few hundred
// objects and checks again.
func (r *run) hugeRun() {
	n := 80000 + r.t.Choose(20000, "huge-n")
	r.bulk = true
	for i := 0; i < n && r.res.Viol == nil && r.res.Aborted == ""; i++ {
		s := r.newObj()
		p, v, st := core.Protect(func() { r.tree.Insert(s.obj) })
		if p {
			r.mutPanic("Insert", v, st)
			return
		}
		r.model = append(r.model, s)
	}
	r.log.EventInts("huge-inserted", int64(len(r.model)))
	r.bulk = false
	r.walkNow("insert")
	for i := 0; i < 12 && r.res.Viol == nil && r.res.Aborted == ""; i++ {
		r.query()
	}
	for i := 0; i < 300 && r.res.Viol == nil && r.res.Aborted == ""; i++ {
		r.bulk = true
		r.deletePresent(0)
	}
	r.bulk = false
	r.walkNow("delete")
	for i := 0; i < 8 && r.res.Viol == nil && r.res.Aborted == ""; i++ {
		r.query()
	}
}

// walkNow forces the full structural walk regardless of the sampling rule.
func (r *run) walkNow(op string) {
	if r.res.Viol != nil || r.res.Aborted != "" {
		return
	}
	r.forceWalk = true
	r.afterOp(op)
	r.forceWalk = false
}

func (r *run) insert() {
	s := r.newObj()
	if len(r.model) > 0 && r.t.OneIn(12, "reinsert-same-identity") {
		// the very same object (same pointer / equal point) stored once more
		s = r.model[r.t.Choose(len(r.model), "reinsert-which")]
		r.res.Probe("same-object-inserted-again")
	}
	r.log.EventL("insert", func() string { return "insert " + objStr(s) }, int64(s.id), fb(s.bb.Min.X), fb(s.bb.Min.Y), fb(s.bb.Max.X), fb(s.bb.Max.Y))
	p, v, st := core.Protect(func() { r.tree.Insert(s.obj) })
	if p {
		r.mutPanic("Insert", v, st)
		return
	}
	r.model = append(r.model, s)
	r.checkHeld("Insert")
	r.afterOp("insert")
}

func (r *run) mutPanic(op string, v interface{}, st string) {
	if r.prop == "C11" {
		r.fail("panic", op, "%s panicked: %v %s", op, v, core.TrimStack(st, 4))
	} else {
		r.res.Aborted = "C11-side panic in " + op
		r.log.Event("aborted: " + r.res.Aborted)
	}
}

func (r *run) deletePresent(order int) {
	if r.slices {
		return
	}
	if len(r.model) == 0 {
		r.deleteAbsent()
		return
	}
	var idx int
	switch order {
	case 0:
		idx = r.t.Choose(len(r.model), "del-idx")
	case 1:
		idx = 0 // oldest first
	case 2:
		idx = len(r.model) - 1 // newest first
	default: // spatial: smallest (Min.X, Min.Y)
		idx = 0
		for i, s := range r.model {
			b := r.model[idx]
			if s.bb.Min.X < b.bb.Min.X || (s.bb.Min.X == b.bb.Min.X && s.bb.Min.Y < b.bb.Min.Y) {
				idx = i
			}
		}
	}
	s := r.model[idx]
	multi := r.lastDepth >= 2
	r.log.EventL("delete", func() string { return "delete " + objStr(s) }, int64(s.id))
	var ok bool
	p, v, st := core.Protect(func() { ok = r.tree.Delete(s.obj) })
	if p {
		r.mutPanic("Delete", v, st)
		return
	}
	r.seenDelete = true
	if multi {
		r.seenMultiDelete = true
	}
	if !ok {
		if r.prop == "C11" {
			r.fail("delete-present-false", "", "Delete(%s) of a stored object returned false (size model=%d)", objStr(s), len(r.model))
		} else {
			r.res.Aborted = "C11-side: delete of stored object returned false"
		}
		return
	}
	// Point values: any ==-equal instance may have been removed; the model
	// removes one occurrence of an equal value.
	r.model = append(r.model[:idx:idx], r.model[idx+1:]...)
	r.dead = append(r.dead, s)
	if len(r.dead) > 16 {
		r.dead = r.dead[1:]
	}
	r.checkHeld("Delete")
	r.afterOp("delete")
}

func (r *run) deleteAbsent() {
	if r.slices {
		return // == on slice-typed objects panics by the language's rules; Delete is not defined for them
	}
	var s stored
	kind := r.t.Choose(3, "absent-kind")
	switch {
	case kind == 0 && len(r.dead) > 0:
		s = r.dead[r.t.Choose(len(r.dead), "absent-dead")]
		// a deleted object may still be stored: as an equal Point value, or
		// because the same object had been inserted more than once
		for _, m := range r.model {
			if m.obj == s.obj {
				return
			}
		}
	case kind == 1 && len(r.model) > 0:
		// equal box, different identity
		o := r.model[r.t.Choose(len(r.model), "absent-twin")]
		b := &geom.Bounds{Min: o.bb.Min, Max: o.bb.Max}
		s = stored{obj: b, bb: *b, id: -1}
	default:
		s = r.newObj()
		if _, isPt := s.obj.(geom.Point); isPt {
			for _, m := range r.model {
				if m.obj == s.obj {
					return
				}
			}
		}
	}
	before := r.signature(true)
	r.log.EventL("delete-absent", func() string { return "delete-absent " + objStr(s) }, int64(s.id), fb(s.bb.Min.X), fb(s.bb.Min.Y))
	var ok bool
	p, v, st := core.Protect(func() { ok = r.tree.Delete(s.obj) })
	if p {
		r.mutPanic("Delete(absent)", v, st)
		return
	}
	r.res.Fault("delete-absent")
	if r.prop != "C11" {
		if ok {
			r.res.Aborted = "C11-side: delete of absent object returned true"
		}
		return
	}
	if ok {
		r.fail("delete-absent-true", "", "Delete(%s) of an absent object returned true", objStr(s))
		return
	}
	if after := r.signature(true); after != before {
		r.fail("delete-absent-changed", "", "Delete(%s) of an absent object returned false but changed the tree", objStr(s))
		return
	}
	r.afterOp("delete-absent")
}

// signature hashes the tree: shape only, or shape + every box and object identity.
func (r *run) signature(full bool) uint64 {
	h := core.NewHasher()
	r.tree.VerifWalk(func(n rtree.VerifNode) {
		h = h.Int(n.Depth).Int(len(n.Entries))
		if n.Leaf {
			h = h.Int(1)
		}
		if full {
			for _, e := range n.Entries {
				h = h.U64(math.Float64bits(e.BB.Min.X)).U64(math.Float64bits(e.BB.Min.Y)).
					U64(math.Float64bits(e.BB.Max.X)).U64(math.Float64bits(e.BB.Max.Y))
				if e.Obj != nil {
					switch o := e.Obj.(type) {
					case geom.Point:
						h = h.U64(math.Float64bits(o.X)).U64(math.Float64bits(o.Y))
					case *geom.Bounds:
						h = h.U64(uint64(reflect.ValueOf(o).Pointer()))
					default:
						if id, ok := identKey(o).(sliceIdent); ok && id.p != nil {
							h = h.U64(uint64(reflect.ValueOf(id.p).Pointer())).Int(id.n)
						}
					}
				}
			}
		}
	})
	if full {
		h = h.Int(r.tree.Size()).Int(r.tree.Depth())
	}
	return uint64(h)
}

// afterOp checks Size and the structural invariants (C11) and records the
// shape signature.
func (r *run) afterOp(op string) {
	if op != "init" {
		r.nMut++
	}
	// the structural walk is O(n): on every mutation while the tree is small,
	// on every (n/48+1)-th mutation for larger trees, on every 61st in bulk
	// histories (Size, Delete results and queries are checked on every operation)
	every := 1 + len(r.model)/48
	if r.bulk {
		every = 61
	}
	if op != "init" && every > 1 && !r.forceWalk {
		if r.nMut%every != 0 {
			// cheap checks only
			if r.prop == "C11" {
				if sz := r.tree.Size(); sz != len(r.model) {
					r.fail("size-mismatch", "", "after %s: Size()=%d, model holds %d objects", op, sz, len(r.model))
				}
			}
			if d := r.tree.Depth(); d >= 1 {
				r.lastDepth = d
			}
			return
		}
	}
	type nodeInfo struct {
		env   geom.Bounds
		n     int
		depth int
	}
	var nodes []rtree.VerifNode
	leafDepth := -1
	unevenLeaves := false
	shape := core.NewHasher()
	var firstErr string
	bad := func(format string, a ...interface{}) {
		if firstErr == "" {
			firstErr = fmt.Sprintf(format, a...)
		}
	}
	nObjs := 0
	var badClass string
	setClass := func(c string) {
		if badClass == "" {
			badClass = c
		}
	}
	p, v, st := core.Protect(func() {
		r.tree.VerifWalk(func(n rtree.VerifNode) {
			nodes = append(nodes, n)
			shape = shape.Int(n.Depth).Int(len(n.Entries))
			if len(n.Entries) > r.max {
				setClass("fanout-exceeded")
				bad("node at depth %d has %d entries > max %d", n.Depth, len(n.Entries), r.max)
			}
			if n.Leaf {
				if leafDepth == -1 {
					leafDepth = n.Depth
				} else if leafDepth != n.Depth {
					unevenLeaves = true
				}
				for _, e := range n.Entries {
					nObjs++
					if e.Obj == nil || e.HasChild {
						setClass("leaf-entry-malformed")
						bad("leaf entry without object or with child at depth %d", n.Depth)
					} else if !e.HasBB {
						setClass("envelope-wrong")
						bad("leaf entry without box")
					}
				}
			} else {
				if len(n.Entries) == 0 {
					setClass("unbalanced")
					bad("non-leaf node with no entries at depth %d (a branch that ends above leaf depth)", n.Depth)
				}
				for _, e := range n.Entries {
					if !e.HasChild || e.Obj != nil {
						setClass("nonleaf-entry-malformed")
						bad("non-leaf entry without child or with object at depth %d", n.Depth)
					}
					if !e.ChildParentOK {
						r.res.Probe("internal-stale-parent-pointer")
					}
				}
			}
		})
	})
	if p {
		r.mutPanic("VerifWalk", v, st)
		return
	}
	if !r.tree.VerifRootParentNil() {
		r.res.Probe("internal-root-parent-not-nil")
	}
	r.states[uint64(shape)] = struct{}{}
	if r.log.Keep && os.Getenv("VERIF_RTREE_DUMP") != "" {
		for _, n := range nodes {
			r.log.Note("      node#%d parent#%d depth=%d level=%d leaf=%v entries=%d", n.ID, n.Parent, n.Depth, n.Level, n.Leaf, len(n.Entries))
		}
	}
	depth := r.tree.Depth()
	if leafDepth >= 2 && r.lastDepth < 2 {
		r.res.Probe("reached-depth>=2")
	}
	if leafDepth >= 3 {
		r.res.Probe("ops-at-depth>=3")
	}
	if r.lastDepth >= 2 && leafDepth == 1 && op == "delete" {
		r.res.Probe("root-collapsed-to-leaf")
	}
	if r.lastDepth > leafDepth && leafDepth >= 1 && op == "delete" {
		r.res.Probe("root-collapsed")
	}
	if op == "delete" && len(r.model) == 0 {
		r.res.Probe("tree-emptied")
	}
	if op == "insert" && len(r.model) == 1 && r.seenDelete {
		r.res.Probe("refilled-after-empty")
	}
	r.lastDepth = leafDepth
	if r.prop != "C11" {
		return
	}
	if sz := r.tree.Size(); sz != len(r.model) {
		r.fail("size-mismatch", "", "after %s: Size()=%d, model holds %d objects", op, sz, len(r.model))
		return
	}
	if firstErr != "" {
		r.fail(badClass, "", "after %s: %s", op, firstErr)
		return
	}
	if unevenLeaves {
		r.fail("unbalanced", "", "after %s: leaves at different depths", op)
		return
	}
	if depth != leafDepth {
		r.fail("depth-mismatch", "", "after %s: Depth()=%d but leaves are at depth %d", op, depth, leafDepth)
		return
	}
	if nObjs != len(r.model) {
		r.fail("leaf-count-mismatch", "", "after %s: %d leaf entries, model holds %d", op, nObjs, len(r.model))
		return
	}
	// envelopes: every non-leaf entry's box is exactly the envelope of its child's entries
	for _, n := range nodes {
		if n.Parent < 0 || len(n.Entries) == 0 {
			continue
		}
		env := n.Entries[0].BB
		for _, e := range n.Entries[1:] {
			env.Min.X = math.Min(env.Min.X, e.BB.Min.X)
			env.Min.Y = math.Min(env.Min.Y, e.BB.Min.Y)
			env.Max.X = math.Max(env.Max.X, e.BB.Max.X)
			env.Max.Y = math.Max(env.Max.Y, e.BB.Max.Y)
		}
		pe := nodes[n.Parent].Entries[n.ParentEntry]
		if !pe.HasBB || pe.BB != env {
			r.fail("envelope-wrong", "", "after %s: entry box %v at depth %d is not the envelope %v of its subtree", op, pe.BB, n.Depth-1, env)
			return
		}
	}
	// leaf entry boxes equal the object's box
	var sliceBoxes map[interface{}]geom.Bounds
	for _, n := range nodes {
		if !n.Leaf {
			continue
		}
		for _, e := range n.Entries {
			if e.Obj == nil {
				continue
			}
			var want geom.Bounds
			switch o := e.Obj.(type) {
			case geom.Point:
				want = geom.Bounds{Min: o, Max: o}
			case *geom.Bounds:
				want = *o
			default:
				// slice-typed geometry: look its box up in the model
				if sliceBoxes == nil {
					sliceBoxes = map[interface{}]geom.Bounds{}
					for _, m := range r.model {
						sliceBoxes[identKey(m.obj)] = m.bb
					}
				}
				var found bool
				want, found = sliceBoxes[identKey(e.Obj)]
				if !found {
					r.fail("leaf-entry-malformed", "unknown-object", "after %s: a leaf holds %v, which was never inserted", op, e.Obj)
					return
				}
			}
			if e.BB != want {
				r.fail("envelope-wrong", "leaf", "after %s: leaf entry box %v differs from its object's box %v", op, e.BB, want)
				return
			}
		}
	}
}

func (r *run) queryBox() geom.Bounds {
	t := r.t
	switch t.Choose(5, "q-kind") {
	case 0: // degenerate point query
		p := geom.Point{X: r.coord("qx"), Y: r.coord("qy")}
		return geom.Bounds{Min: p, Max: p}
	case 1: // touching an existing box at its corner/edge
		if len(r.model) > 0 {
			o := r.model[t.Choose(len(r.model), "q-touch")]
			w := float64(t.Range(0, 3, "q-w")) * r.scale
			if t.OneIn(3, "q-near-miss") {
				// not touching, but only just: one ulp beyond an edge (a
				// denormal gap when that edge is at 0), or one ulp inside
				up, dn := math.Inf(1), math.Inf(-1)
				if t.Bool("q-near-inside") {
					up, dn = dn, up
				}
				r.res.Probe("near-miss-query(1-ulp)")
				if t.Bool("q-near-x") {
					x := math.Nextafter(o.bb.Max.X, up)
					return geom.Bounds{Min: geom.Point{X: x, Y: o.bb.Min.Y - w}, Max: geom.Point{X: math.Max(x, x+w), Y: o.bb.Max.Y + w}}
				}
				y := math.Nextafter(o.bb.Min.Y, dn)
				return geom.Bounds{Min: geom.Point{X: o.bb.Min.X - w, Y: math.Min(y, y-w)}, Max: geom.Point{X: o.bb.Max.X + w, Y: y}}
			}
			switch t.Choose(4, "q-side") {
			case 0:
				return geom.Bounds{Min: geom.Point{X: o.bb.Max.X, Y: o.bb.Min.Y}, Max: geom.Point{X: o.bb.Max.X + w, Y: o.bb.Max.Y}}
			case 1:
				return geom.Bounds{Min: geom.Point{X: o.bb.Min.X - w, Y: o.bb.Min.Y}, Max: geom.Point{X: o.bb.Min.X, Y: o.bb.Max.Y}}
			case 2:
				return geom.Bounds{Min: geom.Point{X: o.bb.Max.X, Y: o.bb.Max.Y}, Max: geom.Point{X: o.bb.Max.X + w, Y: o.bb.Max.Y + w}}
			default:
				return geom.Bounds{Min: geom.Point{X: o.bb.Min.X - w, Y: o.bb.Min.Y - w}, Max: geom.Point{X: o.bb.Min.X, Y: o.bb.Min.Y}}
			}
		}
		fallthrough
	case 2: // far outside
		return geom.Bounds{Min: geom.Point{X: -50, Y: -50}, Max: geom.Point{X: -40 + float64(t.Range(0, 45, "q-far")), Y: -40}}
	case 3: // everything
		return geom.Bounds{Min: geom.Point{X: -1e6, Y: -1e6}, Max: geom.Point{X: 1e6, Y: 1e6}}
	default:
		x, y := r.coord("qx"), r.coord("qy")
		var w, h float64
		if r.grid > 0 {
			w, h = float64(t.Range(0, r.grid, "qw"))*r.scale, float64(t.Range(0, r.grid, "qh"))*r.scale
		} else {
			w, h = t.Unit("qw")*60, t.Unit("qh")*60
		}
		return geom.Bounds{Min: geom.Point{X: x, Y: y}, Max: geom.Point{X: x + w, Y: y + h}}
	}
}

func (r *run) queryPoint() geom.Point {
	t := r.t
	if r.ring && t.Bool("p-ring-centre") {
		if t.Bool("p-ring-exact") {
			return geom.Point{}
		}
		return geom.Point{X: (t.Unit("p-ring-dx") - 0.5) * r.ringR * 0.01, Y: (t.Unit("p-ring-dy") - 0.5) * r.ringR * 0.01}
	}
	switch t.Choose(4, "p-kind") {
	case 0: // on a stored box border / corner
		if len(r.model) > 0 {
			o := r.model[t.Choose(len(r.model), "p-on")]
			switch t.Choose(3, "p-where") {
			case 0:
				return o.bb.Min
			case 1:
				return geom.Point{X: o.bb.Max.X, Y: (o.bb.Min.Y + o.bb.Max.Y) / 2}
			default:
				return geom.Point{X: (o.bb.Min.X + o.bb.Max.X) / 2, Y: (o.bb.Min.Y + o.bb.Max.Y) / 2}
			}
		}
		fallthrough
	case 1: // outside the populated area
		return geom.Point{X: -10*r.scale - r.coord("p-out"), Y: 150*r.scale + r.coord("p-out")}
	default:
		if r.t.Bool("p-half") {
			return geom.Point{X: r.coord("px") + 0.5*r.scale, Y: r.coord("py") + 0.5*r.scale}
		}
		return geom.Point{X: r.coord("px"), Y: r.coord("py")}
	}
}

func (r *run) query() {
	var kind int
	if r.prop == "C11" {
		kind = 0
	} else {
		kind = 1 + r.t.Choose(2, "nn-kind")
	}
	switch kind {
	case 0:
		r.searchIntersect()
	case 1:
		r.nearest()
	default:
		r.kNearest()
	}
}

func (r *run) hold(what string, res []geom.Geom) {
	r.heldRes, r.heldWhat = res, what
	r.heldCopy = append([]geom.Geom(nil), res...)
}

// checkHeld verifies that the slice returned by an earlier query still holds
// what it held when it was returned.
func (r *run) checkHeld(after string) {
	if r.heldRes == nil || r.res.Viol != nil {
		return
	}
	bad := len(r.heldRes) != len(r.heldCopy)
	for i := 0; !bad && i < len(r.heldCopy); i++ {
		a, b := r.heldRes[i], r.heldCopy[i]
		if (a == nil) != (b == nil) || (a != nil && !sameObj(a, b)) {
			bad = true
		}
	}
	if bad {
		r.fail("earlier-answer-overwritten", r.heldWhat, "the slice returned by an earlier %s was changed by a later %s: it held %v, now holds %v", r.heldWhat, after, r.heldCopy, r.heldRes)
	}
	r.heldRes = nil
}

func fb(f float64) int64 { return int64(math.Float64bits(f)) }

type sliceIdent struct {
	p *geom.Point
	n int
	t uint8
}

// identKey is a comparable identity for any stored object: the object itself
// for comparable ones, (first element, length, type) for slice-typed ones.
func identKey(g geom.Geom) interface{} {
	switch v := g.(type) {
	case geom.LineString:
		if len(v) > 0 {
			return sliceIdent{&v[0], len(v), 1}
		}
		return sliceIdent{nil, 0, 1}
	case geom.MultiPoint:
		if len(v) > 0 {
			return sliceIdent{&v[0], len(v), 2}
		}
		return sliceIdent{nil, 0, 2}
	case geom.Polygon:
		if len(v) > 0 && len(v[0]) > 0 {
			return sliceIdent{&v[0][0], len(v[0]), 3}
		}
		return sliceIdent{nil, 0, 3}
	}
	return g
}

func (r *run) searchIntersect() {
	q := r.queryBox()
	r.log.EventL("search", func() string { return fmt.Sprintf("search [%g,%g,%g,%g]", q.Min.X, q.Min.Y, q.Max.X, q.Max.Y) }, fb(q.Min.X), fb(q.Min.Y), fb(q.Max.X), fb(q.Max.Y))
	var got []geom.Geom
	qq := q
	p, v, st := core.Protect(func() { got = r.tree.SearchIntersect(&qq) })
	if p {
		r.fail("panic", "SearchIntersect", "SearchIntersect panicked: %v %s", v, core.TrimStack(st, 4))
		return
	}
	want := map[interface{}]int{}
	nwant := 0
	for _, s := range r.model {
		if boxesTouch(s.bb, q) {
			want[identKey(s.obj)]++
			nwant++
		}
	}
	r.log.EventInts("search-result", int64(len(got)), int64(nwant))
	r.checkHeld("SearchIntersect")
	if r.res.Viol != nil {
		return
	}
	defer r.hold("SearchIntersect", got)
	if r.lastDepth >= 2 {
		r.res.Probe("search-on-multilevel")
	}
	for _, g := range got {
		if g == nil {
			r.fail("search-mismatch", "", "SearchIntersect returned a nil object")
			return
		}
		k := identKey(g)
		want[k]--
		if want[k] < 0 {
			r.fail("search-mismatch", "", "SearchIntersect(%v) returned %v which the scan does not (or more often than stored); got %d want %d", q, g, len(got), nwant)
			return
		}
	}
	if len(got) != nwant {
		r.fail("search-mismatch", "", "SearchIntersect(%v) returned %d objects, brute-force scan finds %d", q, len(got), nwant)
	}
	if qq != q {
		r.fail("search-mutated-query", "", "SearchIntersect modified its query box")
	}
}

// sameObj is object identity: == for comparable objects, same backing array
// and length for slice-typed geometries.
func sameObj(a, b geom.Geom) bool {
	first := func(g geom.Geom) (*geom.Point, int, bool) {
		switch v := g.(type) {
		case geom.LineString:
			if len(v) == 0 {
				return nil, 0, true
			}
			return &v[0], len(v), true
		case geom.MultiPoint:
			if len(v) == 0 {
				return nil, 0, true
			}
			return &v[0], len(v), true
		case geom.Polygon:
			if len(v) == 0 || len(v[0]) == 0 {
				return nil, 0, true
			}
			return &v[0][0], len(v[0]), true
		}
		return nil, 0, false
	}
	pa, na, sa := first(a)
	pb, nb, sb := first(b)
	if sa || sb {
		return sa && sb && pa == pb && na == nb && fmt.Sprintf("%T", a) == fmt.Sprintf("%T", b)
	}
	return a == b
}

func (r *run) findStored(g geom.Geom, used []bool) int {
	for i, s := range r.model {
		if !used[i] && sameObj(s.obj, g) {
			return i
		}
	}
	return -1
}

func (r *run) nearest() {
	if len(r.model) == 0 {
		return // property speaks of non-empty trees only
	}
	pt := r.queryPoint()
	r.log.EventL("nn", func() string { return fmt.Sprintf("nn (%g,%g)", pt.X, pt.Y) }, fb(pt.X), fb(pt.Y))
	var got geom.Geom
	p, v, st := core.Protect(func() { got = r.tree.NearestNeighbor(pt) })
	if p {
		r.fail("nn-panic", "", "NearestNeighbor(%v) on a tree of %d objects panicked: %v %s", pt, len(r.model), v, core.TrimStack(st, 4))
		return
	}
	r.noteNN()
	best := math.Inf(1)
	for _, s := range r.model {
		best = math.Min(best, boxDist(pt, s.bb))
	}
	if got == nil {
		r.fail("nn-wrong", "", "NearestNeighbor(%v) returned nil on a non-empty tree", pt)
		return
	}
	idx := r.findStored(got, make([]bool, len(r.model)))
	if idx < 0 {
		r.fail("nn-not-stored", "", "NearestNeighbor(%v) returned %v which is not stored", pt, got)
		return
	}
	d := boxDist(pt, r.model[idx].bb)
	r.log.EventInts("nn-result", int64(math.Float64bits(d)))
	if !distEq(d, best) {
		r.fail("nn-wrong", "", "NearestNeighbor(%v) returned %s at distance %g; the nearest stored object is at %g (tree depth %d, %d objects)", pt, objStr(r.model[idx]), d, best, r.lastDepth, len(r.model))
	}
}

func (r *run) noteNN() {
	if r.lastDepth >= 2 {
		r.res.Probe("nn-on-multilevel")
		if r.seenDelete {
			r.nnOnMulti = true
			r.res.Probe("nn-on-multilevel-after-delete")
		}
	}
}

func (r *run) kNearest() {
	pt := r.queryPoint()
	var k int
	switch r.t.Choose(4, "k-kind") {
	case 0:
		k = 1 + r.t.Choose(3, "k")
	case 1:
		k = 1 + r.t.Choose(len(r.model)+2, "k")
	case 2:
		k = len(r.model) + r.t.Choose(3, "k")
		if k < 1 {
			k = 1
		}
	default:
		k = 1 + r.t.Choose(r.max+2, "k")
	}
	if len(r.model) > 150 && k > 40 && (r.huge || len(r.model) > 3000 || !r.t.OneIn(25, "k-huge-on-big-tree")) {
		// NearestNeighbors allocates two k-slices per candidate: k ~ n on a
		// tree of a thousand objects costs megabytes per query; keep such
		// queries rare
		k = 1 + k%40
	}
	r.log.EventL("knn", func() string { return fmt.Sprintf("knn k=%d (%g,%g)", k, pt.X, pt.Y) }, int64(k), fb(pt.X), fb(pt.Y))
	var got []geom.Geom
	p, v, st := core.Protect(func() { got = r.tree.NearestNeighbors(k, pt) })
	if p {
		r.fail("knn-panic", "", "NearestNeighbors(%d,%v) panicked: %v %s", k, pt, v, core.TrimStack(st, 4))
		return
	}
	r.noteNN()
	r.checkHeld("NearestNeighbors")
	if r.res.Viol != nil {
		return
	}
	defer r.hold("NearestNeighbors", got)
	if k > r.max && r.lastDepth >= 2 {
		r.res.Probe("knn-k>fanout-on-multilevel")
	}
	want := make([]float64, 0, len(r.model))
	for _, s := range r.model {
		want = append(want, boxDist(pt, s.bb))
	}
	sort.Float64s(want)
	m := k
	if len(r.model) < m {
		m = len(r.model)
	}
	if len(got) != k {
		r.fail("knn-wrong", "len", "NearestNeighbors(%d,%v) returned a slice of length %d", k, pt, len(got))
		return
	}
	used := make([]bool, len(r.model))
	byIdent := map[interface{}][]int{}
	for i, s := range r.model {
		key := identKey(s.obj)
		byIdent[key] = append(byIdent[key], i)
	}
	find := func(g geom.Geom) int {
		key := identKey(g)
		l := byIdent[key]
		if len(l) == 0 {
			return -1
		}
		byIdent[key] = l[1:]
		return l[0]
	}
	prev := -1.0
	for i := 0; i < k; i++ {
		if i >= m {
			if got[i] != nil {
				r.fail("knn-wrong", "tail", "NearestNeighbors(%d,%v): slot %d should be nil (only %d objects stored)", k, pt, i, len(r.model))
				return
			}
			continue
		}
		if got[i] == nil {
			r.fail("knn-wrong", "", "NearestNeighbors(%d,%v): slot %d is nil but %d objects are stored (want distance %g; tree depth %d)", k, pt, i, len(r.model), want[i], r.lastDepth)
			return
		}
		idx := find(got[i])
		if idx < 0 {
			r.fail("knn-not-stored", "", "NearestNeighbors(%d,%v): slot %d holds %v which is not stored (or returned more often than stored)", k, pt, i, got[i])
			return
		}
		used[idx] = true
		d := boxDist(pt, r.model[idx].bb)
		if d < prev && !distEq(d, prev) {
			r.fail("knn-wrong", "order", "NearestNeighbors(%d,%v): distances not non-decreasing at slot %d (%g after %g)", k, pt, i, d, prev)
			return
		}
		prev = d
		if !distEq(d, want[i]) {
			r.fail("knn-wrong", "", "NearestNeighbors(%d,%v): slot %d is %s at distance %g, the %d-th smallest stored distance is %g (tree depth %d, %d objects)", k, pt, i, objStr(r.model[idx]), d, i+1, want[i], r.lastDepth, len(r.model))
			return
		}
	}
	r.log.EventInts("knn-ok", int64(k), int64(m))
}
