// Package projh checks property C10: transformers are history-independent
// functions of their arguments and Geom.Transform is structure-preserving and
// propagates a failing transformer's error.
//
// The simulator owns (a) the history: 2-4 simulated clients build transformers
// over a shared pool of *SR and the tape interleaves their calls, and (b) fault
// injection through the proj.Transformer seam (a wrapper that fails on a chosen
// vertex). Oracle for calls: a "fresh world" — the same definitions parsed
// anew, a new transformer, invoked exactly once.
package projh

import (
	"errors"
	"fmt"
	"math"
	"os"
	"os/exec"
	"reflect"
	"strings"

	"github.com/ctessum/geom"
	"github.com/ctessum/geom/proj"

	"verif/sim/core"
	"verif/sim/tape"
)

func init() {
	core.Register("C10", func() core.Engine { return newEngine() })
}

type def struct {
	name  string // what the history world parses (registry name or text)
	fresh string // definition text for the fresh world
	ll    bool   // longlat: coordinates are degrees
}

const (
	wgs84Text = "+title=WGS 84 (long/lat) +proj=longlat +ellps=WGS84 +datum=WGS84 +units=degrees"
	nad83Text = "+title=NAD83 (long/lat) +proj=longlat +a=6378137.0 +b=6356752.31414036 +ellps=GRS80 +datum=NAD83 +units=degrees"
	gmercText = "+title=WGS 84 / Pseudo-Mercator +proj=merc +a=6378137 +b=6378137 +lat_ts=0.0 +lon_0=0.0 +x_0=0.0 +y_0=0 +k=1.0 +units=m +nadgrids=@null +no_defs"
)

var catalogue = []def{
	{"WGS84", wgs84Text, true},
	{"EPSG:3857", gmercText, false},
	{"EPSG:4269", nad83Text, true},
	{"+proj=longlat +ellps=clrk66 +towgs84=-8,160,176 +no_defs", "", true},
	{"+proj=utm +zone=15 +ellps=clrk66 +towgs84=-8,160,176 +units=m +no_defs", "", false},
	{"+proj=tmerc +lat_0=49 +lon_0=-2 +k=0.9996012717 +x_0=400000 +y_0=-100000 +ellps=airy +towgs84=446.448,-125.157,542.06,0.15,0.247,0.842,-20.489 +units=m +no_defs", "", false},
	{"+proj=lcc +lat_1=33 +lat_2=45 +lat_0=40 +lon_0=-97 +x_0=0 +y_0=0 +a=6370997 +b=6370997 +units=m +no_defs", "", false},
	{"+proj=aea +lat_1=29.5 +lat_2=45.5 +lat_0=23 +lon_0=-96 +x_0=0 +y_0=0 +datum=NAD83 +units=m +no_defs", "", false},
	{"+proj=longlat +datum=WGS84 +axis=neu +no_defs", "", true},
	{"+proj=merc +lon_0=0 +k=1 +x_0=0 +y_0=0 +datum=WGS84 +units=m +axis=wsu +no_defs", "", false},
	{"+proj=longlat +ellps=intl +pm=paris +towgs84=-87,-98,-121 +no_defs", "", true},
	{"+proj=utm +zone=10 +datum=NAD27 +units=us-ft +no_defs", "", false},
	{"+proj=longlat +ellps=clrk66 +nadgrids=@conus +no_defs", "", true},
	{"+proj=lcc +lat_1=33 +lat_2=45 +lat_0=40 +lon_0=-97 +x_0=0 +y_0=0 +ellps=clrk66 +nadgrids=@conus +units=m +no_defs", "", false},
	{"+proj=merc +lon_0=0 +k=1 +x_0=0 +y_0=0 +datum=WGS84 +units=m +no_defs", "", false},
	{"+proj=eqdc +lat_0=39 +lon_0=-96 +lat_1=33 +lat_2=45 +x_0=0 +y_0=0 +datum=NAD83 +units=m +no_defs", "", false},
	{"+proj=krovak +lat_0=49.5 +lon_0=24.83333333333333 +alpha=30.28813972222222 +k=0.9999 +x_0=0 +y_0=0 +ellps=bessel +towgs84=589,76,480,0,0,0,0 +units=m +no_defs", "", false},
	{"+proj=longlat +datum=potsdam +no_defs", "", true},
	{"+proj=utm +zone=33 +south +ellps=WGS84 +datum=WGS84 +units=m +no_defs", "", false},
	{"GOOGLE", gmercText, false},
	{"EPSG:4326", wgs84Text, true},
	// parameter combinations on the edge of each family: defaults omitted,
	// single standard parallel, and degenerate combinations that the
	// projection constructor rejects (the error — or whatever it returns —
	// must be the same on every call)
	{"+proj=lcc +lat_1=33 +lat_0=40 +lon_0=-97 +datum=WGS84 +units=m +no_defs", "", false},
	{"+proj=lcc +lat_1=0 +lat_0=0 +lon_0=10 +datum=WGS84 +units=m +no_defs", "", false},
	{"+proj=lcc +lat_1=30 +lat_2=-30 +lat_0=0 +lon_0=0 +datum=WGS84 +units=m +no_defs", "", false},
	{"+proj=aea +lat_1=30 +lat_2=-30 +lat_0=0 +lon_0=0 +datum=WGS84 +units=m +no_defs", "", false},
	{"+proj=aea +lat_1=40 +lat_0=0 +lon_0=20 +ellps=GRS80 +units=m +no_defs", "", false},
	{"+proj=eqdc +lat_1=20 +lat_2=-20 +lat_0=0 +lon_0=0 +datum=WGS84 +units=m +no_defs", "", false},
	{"+proj=eqdc +lat_1=55 +lat_0=50 +lon_0=10 +ellps=intl +towgs84=-87,-98,-121 +units=m +no_defs", "", false},
	{"+proj=merc +lat_ts=45 +lon_0=10 +datum=WGS84 +units=km +no_defs", "", false},
	{"+proj=merc +datum=WGS84 +no_defs", "", false},
	{"+proj=tmerc +lat_0=0 +lon_0=9 +k=1 +x_0=3500000 +y_0=0 +datum=potsdam +units=m +no_defs", "", false},
	{"+proj=tmerc +datum=WGS84 +no_defs", "", false},
	{"+proj=utm +zone=60 +datum=WGS84 +no_defs", "", false},
	{"+proj=krovak +ellps=bessel +towgs84=570.8,85.7,462.8,4.998,1.587,5.261,3.56 +units=m +no_defs", "", false},
	{"+proj=longlat +a=6371000 +b=6371000 +no_defs", "", true},
	{"+proj=longlat +ellps=bessel +towgs84=582,105,414,1.04,0.35,-3.08,8.3 +pm=ferro +axis=wnu +no_defs", "", true},
	// a projection whose constructor fills in the ellipsoid itself, named
	// without one (first call on a cold reference vs later calls)
	{"+proj=krovak +towgs84=570.8,85.7,462.8,4.998,1.587,5.261,3.56 +units=m +no_defs", "", false},
	{"+proj=krovak +lat_0=49.5 +lon_0=24.83333333333333 +k=0.9999 +towgs84=589,76,480 +units=m +no_defs", "", false},
	// parameters the parser accepts that nothing above uses: +R_A (sphere of
	// equal area), +rf, +to_meter, +from_greenwich
	{"+proj=merc +ellps=WGS84 +R_A +units=m +no_defs", "", false},
	{"+proj=longlat +ellps=clrk66 +R_A +towgs84=-8,160,176 +no_defs", "", true},
	{"+proj=utm +zone=12 +a=6378137 +rf=298.257223563 +to_meter=0.3048 +no_defs", "", false},
	{"+proj=longlat +ellps=intl +from_greenwich=2.337229166667 +towgs84=-87,-98,-121 +no_defs", "", true},
	// different systems that carry the same label (title / WKT name)
	{"+title=custom +proj=utm +zone=10 +datum=WGS84 +units=m +no_defs", "", false},
	{"+title=custom +proj=utm +zone=33 +datum=WGS84 +units=m +no_defs", "", false},
	{"+title=custom +proj=longlat +ellps=clrk66 +towgs84=-8,160,176 +no_defs", "", true},
	{`PROJCS["unnamed",GEOGCS["GCS_WGS_1984",DATUM["D_WGS_1984",SPHEROID["WGS_1984",6378137.0,298.257223563]],PRIMEM["Greenwich",0.0],UNIT["Degree",0.0174532925199433]],PROJECTION["Transverse_Mercator"],PARAMETER["False_Easting",500000.0],PARAMETER["False_Northing",0.0],PARAMETER["Central_Meridian",-93.0],PARAMETER["Scale_Factor",0.9996],PARAMETER["Latitude_Of_Origin",0.0],UNIT["Meter",1.0]]`, "", false},
	{`PROJCS["unnamed",GEOGCS["GCS_WGS_1984",DATUM["D_WGS_1984",SPHEROID["WGS_1984",6378137.0,298.257223563]],PRIMEM["Greenwich",0.0],UNIT["Degree",0.0174532925199433]],PROJECTION["Transverse_Mercator"],PARAMETER["False_Easting",200000.0],PARAMETER["False_Northing",1000.0],PARAMETER["Central_Meridian",15.0],PARAMETER["Scale_Factor",1.0],PARAMETER["Latitude_Of_Origin",0.0],UNIT["Meter",1.0]]`, "", false},
	{`PROJCS["unnamed",GEOGCS["GCS_North_American_1983",DATUM["D_North_American_1983",SPHEROID["GRS_1980",6378137.0,298.257222101]],PRIMEM["Greenwich",0.0],UNIT["Degree",0.0174532925199433]],PROJECTION["Lambert_Conformal_Conic"],PARAMETER["False_Easting",0.0],PARAMETER["False_Northing",0.0],PARAMETER["Central_Meridian",-97.0],PARAMETER["Standard_Parallel_1",33.0],PARAMETER["Standard_Parallel_2",45.0],PARAMETER["Latitude_Of_Origin",40.0],UNIT["Meter",1.0]]`, "", false},
	{`GEOGCS["GCS_WGS_1984",DATUM["D_WGS_1984",SPHEROID["WGS_1984",6378137.0,298.257223563]],PRIMEM["Greenwich",0.0],UNIT["Degree",0.0174532925199433]]`, "", true},
}

func (d def) freshText() string {
	if d.fresh != "" {
		return d.fresh
	}
	return d.name
}

type callResult struct {
	x, y     float64
	ok       bool // err == nil
	panicked bool
	pmsg     string
	nilT     bool // NewTransform returned a nil transformer (identity)
	buildErr bool
}

func (a callResult) same(b callResult) bool {
	if a.panicked || b.panicked {
		return false
	}
	if a.buildErr != b.buildErr || a.ok != b.ok {
		return false
	}
	if a.buildErr || !a.ok {
		return true
	}
	eq := func(p, q float64) bool {
		return math.Float64bits(p) == math.Float64bits(q) || (math.IsNaN(p) && math.IsNaN(q))
	}
	return eq(a.x, b.x) && eq(a.y, b.y)
}

func (a callResult) String() string {
	switch {
	case a.panicked:
		return "panic(" + a.pmsg + ")"
	case a.buildErr:
		return "NewTransform error"
	case !a.ok:
		return "error"
	}
	return fmt.Sprintf("(%.17g, %.17g)", a.x, a.y)
}

type canary struct {
	a, b int
	x, y float64
	want callResult
}

type engine struct {
	canaries []canary
	regFP    []uint64 // fingerprints of the registry SRs at process start
}

// freshCall is the fresh-world oracle: parse both definitions anew, build a new
// transformer, call it once.
func freshCall(a, b def, x, y float64) callResult {
	var r callResult
	p, v, _ := core.Protect(func() {
		s, err := proj.Parse(a.freshText())
		if err != nil {
			panic("harness: catalogue entry does not parse: " + err.Error())
		}
		d, err := proj.Parse(b.freshText())
		if err != nil {
			panic("harness: catalogue entry does not parse: " + err.Error())
		}
		t, err := s.NewTransform(d)
		if err != nil {
			r.buildErr = true
			return
		}
		if t == nil {
			r.nilT, r.x, r.y, r.ok = true, x, y, true
			return
		}
		var e error
		r.x, r.y, e = t(x, y)
		r.ok = e == nil
	})
	if p {
		r.panicked, r.pmsg = true, fmt.Sprint(v)
	}
	return r
}

// TableLines evaluates a fresh transformer for every ordered pair of catalogue
// entries at one fixed position, visiting the pairs forwards or backwards, and
// returns one line per pair. Run in two pristine processes with the two orders
// it exposes state that outlives the spatial references themselves: a
// process-global cache keyed too coarsely makes the first-used definition win,
// so the two tables differ.
func TableLines(reverse bool) []string {
	n := len(catalogue)
	type pr struct{ a, b int }
	var pairs []pr
	for a := 0; a < n; a++ {
		for b := 0; b < n; b++ {
			pairs = append(pairs, pr{a, b})
		}
	}
	if reverse {
		for i, j := 0, len(pairs)-1; i < j; i, j = i+1, j-1 {
			pairs[i], pairs[j] = pairs[j], pairs[i]
		}
	}
	out := make([]string, len(pairs))
	for _, p := range pairs {
		x, y := -93.0, 45.0
		if !catalogue[p.a].ll {
			x, y = 500000, 4000000
		}
		r := freshCall(catalogue[p.a], catalogue[p.b], x, y)
		out[p.a*n+p.b] = fmt.Sprintf("%d %d %v", p.a, p.b, r)
	}
	return out
}

var registryNames = []string{"WGS84", "EPSG:4326", "EPSG:4269", "EPSG:3857", "GOOGLE"}

func newEngine() *engine {
	e := &engine{}
	// canaries are recorded before any history has run in this process
	pts := [][2]float64{{-93, 45}, {10, -33}}
	for _, ab := range [][2]int{{0, 1}, {1, 0}, {2, 1}, {0, 2}, {2, 0}, {3, 0}, {0, 7}, {3, 1}} {
		for _, p := range pts {
			x, y := p[0], p[1]
			if !catalogue[ab[0]].ll {
				x, y = x*100000, y*100000
			}
			// history-world style: registry names are used by name
			e.canaries = append(e.canaries, canary{ab[0], ab[1], x, y, registryCall(catalogue[ab[0]], catalogue[ab[1]], x, y)})
		}
	}
	for _, n := range registryNames {
		sr, _ := proj.Parse(n)
		e.regFP = append(e.regFP, fingerprint(reflect.ValueOf(sr)))
	}
	return e
}

// registryCall builds a new transformer over the *registry* objects (by name)
// and calls it once.
func registryCall(a, b def, x, y float64) callResult {
	var r callResult
	p, v, _ := core.Protect(func() {
		s, err := proj.Parse(a.name)
		if err != nil {
			panic(err)
		}
		d, err := proj.Parse(b.name)
		if err != nil {
			panic(err)
		}
		t, err := s.NewTransform(d)
		if err != nil {
			r.buildErr = true
			return
		}
		if t == nil {
			r.nilT, r.x, r.y, r.ok = true, x, y, true
			return
		}
		var e error
		r.x, r.y, e = t(x, y)
		r.ok = e == nil
	})
	if p {
		r.panicked, r.pmsg = true, fmt.Sprint(v)
	}
	return r
}

// fingerprint hashes every field reachable from v, including unexported ones.
func fingerprint(v reflect.Value) uint64 {
	h := core.NewHasher()
	var walk func(v reflect.Value, depth int)
	walk = func(v reflect.Value, depth int) {
		if depth > 6 {
			return
		}
		switch v.Kind() {
		case reflect.Ptr, reflect.Interface:
			if v.IsNil() {
				h = h.Int(0)
				return
			}
			walk(v.Elem(), depth+1)
		case reflect.Struct:
			for i := 0; i < v.NumField(); i++ {
				walk(v.Field(i), depth+1)
			}
		case reflect.Slice, reflect.Array:
			h = h.Int(v.Len())
			for i := 0; i < v.Len(); i++ {
				walk(v.Index(i), depth+1)
			}
		case reflect.Float64, reflect.Float32:
			h = h.U64(math.Float64bits(v.Float()))
		case reflect.Int, reflect.Int64, reflect.Int32, reflect.Int16, reflect.Int8:
			h = h.U64(uint64(v.Int()))
		case reflect.Uint, reflect.Uint64, reflect.Uint32, reflect.Uint16, reflect.Uint8:
			h = h.U64(v.Uint())
		case reflect.Bool:
			if v.Bool() {
				h = h.Int(1)
			} else {
				h = h.Int(2)
			}
		case reflect.String:
			h = h.Str(v.String())
		}
	}
	walk(v, 0)
	return uint64(h)
}

func (e *engine) Info() core.Info {
	return core.Info{
		Prop:  "C10",
		Level: "exploration",
		Rule:  "a case is one seeded history: a pool of 2-6 spatial references parsed from a 45-entry catalogue (PROJ.4 and WKT) (registry names = shared pointers, 3- and 7-parameter datums needing the WGS84 hop, same-datum pairs, non-enu axis orders, +pm, +units, +nadgrids), 2-4 simulated clients that build transformers over the shared pool and whose calls the tape interleaves (<=60 operations, positions inside and outside the usable region), plus Geom.Transform on all eight geometry types (collections nested up to 40 levels, closed rings, signed zeros, huge values) with a pure sign-of-zero-sensitive stub transformer, optionally re-entrant (it runs another Geom.Transform from inside), wrapped by a fault injector that fails on a tape-chosen vertex; non-trivial = some transformer was called at least twice AND another transformer sharing one of its spatial references was called in between, or a fault fired on a non-first vertex of a multi-part geometry; distinct = distinct hash of the operation/result log",
		Real:  []string{"proj.Parse, (*SR).NewTransform and its closures, Transformers(), datumTransform, adjust_axis, all projection kernels reached by the catalogue", "Geom.Transform for Point, MultiPoint, LineString, MultiLineString, Polygon, MultiPolygon, GeometryCollection, *Bounds"},
		Stubs: []string{"for the Geom.Transform clauses: a pure affine stub transformer wrapped by the fault injector (the proj.Transformer function type is the seam)", "fresh-world oracle: same real code, newly parsed references, single call"},
		FaultKinds: []string{
			"injected-transformer-error (wrapper returns a sentinel error on a tape-chosen vertex: first / middle / last / in a later member / nested)",
			"natural-transformer-error (positions outside the usable region, unsupported grid shifts) placed mid-history",
		},
		StateMeasure:  "distinct (pool, set of transformer pairs built) signatures",
		SchedMeasure:  "distinct client interleavings (hash of the sequence of (client, transformer) pairs that were called)",
		TimeStatement: "no clock exists in proj; simulated time = number of operations applied",
		Assumptions: []string{
			"'freshly built transformer' is read as: built from newly parsed copies of the same two definitions and called once; results must be bit-identical (same code path on identical inputs)",
			"transformers are not claimed to be safe for concurrent use; clients are interleaved, never parallel",
			"registry objects (WGS84, EPSG:3857, …) are process-global: their full reflective fingerprint must be unchanged at the start of every run (else exit 2) and canary transformations recorded at process start are re-evaluated after every run",
		},
		QuickRuns: 1000000, ThoroughRuns: 40000000, QuickWallS: 60, ThoroughWallS: 1200,
	}
}

type xform struct {
	lastX, lastY float64
	hasLast      bool
	a, b         int // indices into pool
	t            proj.Transformer
	built        bool
	err          bool
	calls        int
	client       int
	touched      bool // another transformer sharing an SR was called since the last call
}

type run struct {
	e          *engine
	t          *tape.Tape
	log        *core.Log
	res        *core.Result
	pool       []*proj.SR
	pdef       []def
	xf         []*xform
	sched      core.Hasher
	nontrivial bool
}

func (e *engine) Run(t *tape.Tape, trace bool) core.Result {
	res := core.Result{}
	r := &run{e: e, t: t, log: core.NewLog(trace), res: &res, sched: core.NewHasher()}
	// registry must be pristine at the start of every run
	for i, n := range registryNames {
		sr, _ := proj.Parse(n)
		if fingerprint(reflect.ValueOf(sr)) != e.regFP[i] {
			res.Probe("registry-object-changed-before-run:" + n)
		}
	}
	if t.OneIn(20000, "order-table-run") {
		r.tableRun()
	} else {
		r.exec()
	}
	if res.Viol == nil {
		r.checkCanaries()
	}
	res.LogHash = r.log.Hash()
	res.Events = r.log.Count()
	res.CaseHash = res.LogHash
	res.SchedHash = uint64(r.sched)
	res.Trace = r.log.Lines
	res.NonTrivial = r.nontrivial
	return res
}

func (r *run) fail(class, detail, format string, a ...interface{}) {
	if r.res.Viol == nil {
		msg := fmt.Sprintf(format, a...)
		if len(msg) > 3000 {
			msg = msg[:1500] + fmt.Sprintf(" … (%d characters omitted) … ", len(msg)-3000) + msg[len(msg)-1500:]
		}
		r.res.Viol = &core.Violation{Class: class, Detail: detail, Msg: msg}
		r.log.Violation(class, r.res.Viol.Msg)
	}
}

// tableRun compares the catalogue table computed by two pristine child
// processes that visit the pairs in opposite orders.
func (r *run) tableRun() {
	r.log.Event("order-table run")
	r.res.Probe("order-table-run(two pristine processes, opposite orders)")
	exe, err := os.Executable()
	if err != nil {
		panic("harness: " + err.Error())
	}
	var tabs [2][]string
	for i, ord := range []string{"fwd", "rev"} {
		out, err := exec.Command(exe, "c10-table", "-order", ord).Output()
		if err != nil {
			r.fail("order-table-child-died", ord, "the child process computing the catalogue table (%s order) died: %v", ord, err)
			return
		}
		tabs[i] = strings.Split(strings.TrimSpace(string(out)), "\n")
	}
	if len(tabs[0]) != len(tabs[1]) {
		r.fail("process-order-dependent", "table-size", "tables have %d and %d lines", len(tabs[0]), len(tabs[1]))
		return
	}
	r.res.Steps = int64(len(tabs[0]))
	for i := range tabs[0] {
		if tabs[0][i] != tabs[1][i] {
			var a, b int
			fmt.Sscanf(tabs[0][i], "%d %d", &a, &b)
			r.fail("process-order-dependent", "", "a fresh transformer %s -> %s gives a different result depending on which other definitions were used earlier in the process: %q when all pairs are visited forwards, %q when visited backwards", short(catalogue[a].name), short(catalogue[b].name), tabs[0][i], tabs[1][i])
			return
		}
	}
}

func (r *run) checkCanaries() {
	for _, c := range r.e.canaries {
		got := registryCall(catalogue[c.a], catalogue[c.b], c.x, c.y)
		if !got.same(c.want) {
			r.fail("registry-contaminated", "", "after this history a NEW transformer %q -> %q over the shared registry objects returns %v for (%g,%g); before any history it returned %v", catalogue[c.a].name, catalogue[c.b].name, got, c.x, c.y, c.want)
			return
		}
	}
}

func short(s string) string {
	if len(s) > 44 {
		return s[:44] + "…"
	}
	return s
}

func (r *run) exec() {
	t := r.t
	nPool := 2 + t.Choose(5, "pool-size")
	// Pool members are distinct catalogue entries: two separately parsed
	// copies of one definition compare Equal only until one of them has been
	// used (Transformers() fills defaults into the SR), which flips
	// NewTransform between the identity shortcut and inverse∘forward — a
	// 1e-7 m numerical difference the property does not speak about.
	used := map[int]bool{}
	for i := 0; i < nPool; i++ {
		ci := t.Choose(len(catalogue), "pool-def")
		for used[ci] {
			ci = (ci + 1) % len(catalogue)
		}
		used[ci] = true
		d := catalogue[ci]
		sr, err := proj.Parse(d.name)
		if err != nil {
			panic("harness: catalogue entry does not parse: " + d.name)
		}
		r.pool = append(r.pool, sr)
		r.pdef = append(r.pdef, d)
		r.log.Eventf("pool[%d] = %s", i, short(d.name))
	}
	nClients := 2 + t.Choose(3, "clients")
	ops := 0
	for r.res.Viol == nil && ops < 60 {
		ops++
		client := t.Choose(nClients, "client")
		switch k := t.Choose(8, "op"); {
		case k == 0 || len(r.xf) == 0:
			r.build(client)
		case k <= 5:
			r.call(client)
		default:
			r.geomOp()
		}
		if !t.More(25, "more-ops") {
			break
		}
	}
	r.res.Steps = int64(ops)
	h := core.NewHasher()
	for _, d := range r.pdef {
		h = h.Str(d.name)
	}
	for _, x := range r.xf {
		h = h.Int(x.a).Int(x.b)
	}
	r.res.States = []uint64{uint64(h)}
}

func (r *run) build(client int) {
	a := r.t.Choose(len(r.pool), "build-src")
	b := r.t.Choose(len(r.pool), "build-dst")
	x := &xform{a: a, b: b, client: client}
	var err error
	p, v, st := core.Protect(func() { x.t, err = r.pool[a].NewTransform(r.pool[b]) })
	r.log.Eventf("client %d: build t%d = pool[%d] -> pool[%d] (nil=%v err=%v)", client, len(r.xf), a, b, x.t == nil, err != nil)
	if p {
		// C10 speaks about transformers *obtained from* NewTransform and about
		// Geom.Transform; a panic inside NewTransform itself (observed:
		// (*SR).Equal indexes DatumParams of unequal length) yields no
		// transformer and is outside the statement: counted, not reported.
		_, _ = v, st
		r.res.Probe("out-of-scope:NewTransform-panicked")
		return
	}
	x.built, x.err = true, err != nil
	r.xf = append(r.xf, x)
}

func (r *run) point(d def) (float64, float64) {
	t := r.t
	kind := t.Choose(8, "pt-kind")
	if d.ll {
		switch kind {
		case 0:
			return -93, 45
		case 1: // outside the usable region: natural error
			return t.Unit("lon")*360 - 180, 90 + t.Unit("lat-bad")*20
		case 2:
			return 180, -90
		case 3:
			// exact poles and the antimeridian, and (one in three) a
			// non-finite coordinate: whatever the answer is, it must not
			// change what later calls return
			sp := []float64{90, -90, 180, -180, math.NaN(), math.Inf(1), math.Inf(-1)}
			lon, lat := math.Round((t.Unit("lon")*360-180)*1e4)/1e4, math.Round((t.Unit("lat")*170-85)*1e4)/1e4
			if t.Bool("special-lat") {
				lat = sp[t.Choose(len(sp), "special-ll")]
			} else {
				lon = sp[t.Choose(len(sp), "special-ll")]
			}
			r.res.Probe("pole/antimeridian/non-finite-input")
			return lon, lat
		default:
			return math.Round((t.Unit("lon")*360-180)*1e4) / 1e4, math.Round((t.Unit("lat")*170-85)*1e4) / 1e4
		}
	}
	switch kind {
	case 0:
		return 500000, 4000000
	case 1:
		return 1e9 * (t.Unit("x-far") - 0.5), 1e9 * (t.Unit("y-far") - 0.5)
	case 2:
		sp := []float64{0, math.NaN(), math.Inf(1), math.Inf(-1), 1e300}
		x, y := math.Round((t.Unit("x")-0.5)*4e6), math.Round((t.Unit("y")-0.5)*4e6)
		if t.Bool("special-y") {
			y = sp[t.Choose(len(sp), "special-xy")]
		} else {
			x = sp[t.Choose(len(sp), "special-xy")]
		}
		r.res.Probe("pole/antimeridian/non-finite-input")
		return x, y
	default:
		return math.Round((t.Unit("x") - 0.5) * 4e6), math.Round((t.Unit("y") - 0.5) * 4e6)
	}
}

func (r *run) call(client int) {
	// pick a transformer, preferring the client's own
	idx := r.t.Choose(len(r.xf), "call-which")
	x := r.xf[idx]
	if x.err {
		return
	}
	px, py := r.point(r.pdef[x.a])
	if x.hasLast && r.t.OneIn(6, "near-repeat") {
		// almost the previous input of this transformer: a few ulps away in
		// one or both coordinates (or exactly the same)
		px, py = x.lastX, x.lastY
		for i, n := 0, r.t.Choose(4, "near-ulps-x"); i < n; i++ {
			px = math.Nextafter(px, math.Inf(1))
		}
		for i, n := 0, r.t.Choose(4, "near-ulps-y"); i < n; i++ {
			py = math.Nextafter(py, math.Inf(-1))
		}
		r.res.Probe("near-repeat-input(0-3 ulps)")
	}
	x.lastX, x.lastY, x.hasLast = px, py, true
	var got callResult
	if x.t == nil {
		got = callResult{x: px, y: py, ok: true, nilT: true}
	} else {
		p, v, st := core.Protect(func() {
			var e error
			got.x, got.y, e = x.t(px, py)
			got.ok = e == nil
		})
		if p {
			got.panicked, got.pmsg = true, fmt.Sprintf("%v %s", v, core.TrimStack(st, 4))
		}
	}
	r.sched = r.sched.Int(client).Int(idx)
	if x.calls >= 1 && x.touched {
		r.nontrivial = true
		r.res.Probe("repeat-call-after-interleaved-sharing-transformer")
	}
	if x.calls >= 1 {
		r.res.Probe("repeat-call")
	}
	x.calls++
	x.touched = false
	for _, o := range r.xf {
		if o != x && (o.a == x.a || o.a == x.b || o.b == x.a || o.b == x.b) {
			o.touched = true
		}
	}
	if !got.ok && !got.panicked {
		r.res.Fault("natural-transformer-error")
	}
	want := freshCall(r.pdef[x.a], r.pdef[x.b], px, py)
	r.log.Eventf("client %d: call t%d(%g,%g) = %v", client, idx, px, py, got)
	if got.panicked {
		det := "call"
		if want.panicked {
			det = "call,fresh-too"
		}
		r.fail("transformer-panic", det, "transformer %s -> %s panicked on (%g,%g) (call #%d of this transformer): %s", short(r.pdef[x.a].name), short(r.pdef[x.b].name), px, py, x.calls, got.pmsg)
		return
	}
	if want.panicked {
		r.fail("transformer-panic", "fresh", "a freshly built transformer %s -> %s panicked on (%g,%g): %s", short(r.pdef[x.a].name), short(r.pdef[x.b].name), px, py, want.pmsg)
		return
	}
	if !got.same(want) {
		r.fail("history-dependent", fmt.Sprintf("okGot=%v,okFresh=%v", got.ok, want.ok), "transformer %s -> %s, call #%d, input (%g,%g): returned %v; a freshly built transformer returns %v", short(r.pdef[x.a].name), short(r.pdef[x.b].name), x.calls, px, py, got, want)
	}
}

// ---- Geom.Transform ----

var errInjected = errors.New("verif: injected transformer failure")

// stub is the pure transformer of the Geom.Transform clauses: affine, except
// that it tells +0 from -0 (as atan2, 1/x or an antimeridian cut would).
func stub(x, y float64) (float64, float64) {
	a, b := 2*x+1, 3-y
	if x == 0 {
		a = math.Copysign(5, x)
	}
	if y == 0 {
		b = math.Copysign(9, y)
	}
	return a, b
}

func bitsEq(p, q geom.Point) bool {
	return math.Float64bits(p.X) == math.Float64bits(q.X) && math.Float64bits(p.Y) == math.Float64bits(q.Y)
}

type gctx struct {
	r     *run
	next  float64
	verts []geom.Point
}

func (g *gctx) pt() geom.Point {
	g.next++
	p := geom.Point{X: g.next, Y: g.next + 0.25}
	if g.r.t.OneIn(8, "special-coord") {
		// zeros of either sign, negative and huge values
		sp := []float64{0, math.Copysign(0, -1), -g.next, 1e300, -1e-300}
		if g.r.t.Bool("special-x") {
			p.X = sp[g.r.t.Choose(len(sp), "special-v")]
		} else {
			p.Y = sp[g.r.t.Choose(len(sp), "special-v")]
		}
	}
	g.verts = append(g.verts, p)
	return p
}

func (g *gctx) pts(max int, label string) []geom.Point {
	n := g.r.t.Choose(max+1, label)
	if g.r.t.OneIn(400, "big-vertex-run") {
		// thousands of vertices in one run (any block-wise or parallel handling
		// of long runs has its seams here)
		n = 1000 + g.r.t.Choose(4000, "big-vertex-run-n")
		g.r.res.Probe("vertex-run>=1000")
	}
	out := make([]geom.Point, n)
	for i := range out {
		out[i] = g.pt()
	}
	if n >= 2 && g.r.t.OneIn(3, "closed-ring") {
		// closed ring / repeated vertex: last == first
		out[n-1] = out[0]
		if g.r.t.OneIn(3, "closed-signed-zero") {
			// … or equal under == but not bit-identical (+0 vs -0)
			out[0].X = 0
			out[n-1] = out[0]
			out[n-1].X = math.Copysign(0, -1)
			g.verts[len(g.verts)-n] = out[0]
		}
		g.verts[len(g.verts)-1] = out[n-1]
	}
	return out
}

// gen builds a geometry; one in ten is handed out as a pointer to the value
// (a *Point from geom.NewPoint, &lineString, &polygon are legal Geoms too).
func (g *gctx) gen(depth int) geom.Geom {
	v := g.genValue(depth)
	if depth > 0 && g.r.t.OneIn(10, "pointer-typed") {
		switch x := v.(type) {
		case geom.Point:
			g.r.res.Probe("pointer-typed-member")
			return &x
		case geom.LineString:
			g.r.res.Probe("pointer-typed-member")
			return &x
		case geom.Polygon:
			g.r.res.Probe("pointer-typed-member")
			return &x
		case geom.MultiPoint:
			g.r.res.Probe("pointer-typed-member")
			return &x
		}
	}
	return v
}

func (g *gctx) genValue(depth int) geom.Geom {
	t := g.r.t
	n := 8
	if depth >= 3 {
		n = 7
	}
	switch t.Choose(n, "geom-type") {
	case 0:
		return g.pt()
	case 1:
		return geom.MultiPoint(g.pts(4, "mp-n"))
	case 2:
		return geom.LineString(g.pts(5, "ls-n"))
	case 3:
		m := make(geom.MultiLineString, t.Choose(4, "mls-n"))
		for i := range m {
			m[i] = geom.LineString(g.pts(4, "mls-ls-n"))
		}
		return m
	case 4:
		p := make(geom.Polygon, t.Choose(3, "poly-rings"))
		for i := range p {
			p[i] = geom.Path(g.pts(5, "ring-n"))
		}
		return p
	case 5:
		m := make(geom.MultiPolygon, t.Choose(4, "mpoly-n"))
		for i := range m {
			p := make(geom.Polygon, t.Choose(3, "mpoly-rings"))
			for j := range p {
				p[j] = geom.Path(g.pts(4, "mpoly-ring-n"))
			}
			m[i] = p
		}
		return m
	case 6:
		a, b := g.pt(), g.pt()
		g.verts = g.verts[:len(g.verts)-2]
		bb := &geom.Bounds{Min: a, Max: geom.Point{X: b.X + 1, Y: b.Y + 1}}
		// the four corners are what the transformer will see
		g.verts = append(g.verts, bb.Min, geom.Point{X: bb.Max.X, Y: bb.Min.Y}, bb.Max, geom.Point{X: bb.Min.X, Y: bb.Max.Y})
		return bb
	default:
		if depth == 0 && t.OneIn(6, "gc-deep-chain") {
			// a chain of directly nested collections, 2..40 levels deep, with
			// a few siblings on the way
			levels := 2 + t.Choose(39, "gc-levels")
			var inner geom.Geom = g.gen(3)
			for l := 0; l < levels; l++ {
				c := geom.GeometryCollection{}
				if t.OneIn(3, "gc-sibling-before") {
					c = append(c, g.pt())
				}
				c = append(c, inner)
				if t.OneIn(3, "gc-sibling-after") {
					c = append(c, geom.LineString(g.pts(2, "gc-sib-ls")))
				}
				inner = c
			}
			g.r.res.Probe("deeply-nested-collection")
			return inner
		}
		c := make(geom.GeometryCollection, t.Choose(4, "gc-n"))
		for i := range c {
			c[i] = g.gen(depth + 1)
		}
		return c
	}
}

// deref turns a pointer-typed geometry into its value.
func deref(g geom.Geom) geom.Geom {
	switch v := g.(type) {
	case *geom.Point:
		return *v
	case *geom.LineString:
		return *v
	case *geom.Polygon:
		return *v
	case *geom.MultiPoint:
		return *v
	}
	return g
}

func deepCopy(g geom.Geom) geom.Geom {
	switch v := g.(type) {
	case *geom.Point:
		c := *v
		return &c
	case *geom.LineString:
		c := append(geom.LineString{}, (*v)...)
		return &c
	case *geom.Polygon:
		c := deepCopy(*v).(geom.Polygon)
		return &c
	case *geom.MultiPoint:
		c := append(geom.MultiPoint{}, (*v)...)
		return &c
	}
	switch v := g.(type) {
	case geom.Point:
		return v
	case geom.MultiPoint:
		return append(geom.MultiPoint{}, v...)
	case geom.LineString:
		return append(geom.LineString{}, v...)
	case geom.MultiLineString:
		o := make(geom.MultiLineString, len(v))
		for i := range v {
			o[i] = append(geom.LineString{}, v[i]...)
		}
		return o
	case geom.Polygon:
		o := make(geom.Polygon, len(v))
		for i := range v {
			o[i] = append(geom.Path{}, v[i]...)
		}
		return o
	case geom.MultiPolygon:
		o := make(geom.MultiPolygon, len(v))
		for i := range v {
			o[i] = deepCopy(v[i]).(geom.Polygon)
		}
		return o
	case geom.GeometryCollection:
		o := make(geom.GeometryCollection, len(v))
		for i := range v {
			o[i] = deepCopy(v[i])
		}
		return o
	case *geom.Bounds:
		c := *v
		return &c
	}
	panic(fmt.Sprintf("harness: unknown geometry %T", g))
}

// expected builds the geometry Transform must return for the stub transformer.
func expected(g geom.Geom) geom.Geom {
	g = deref(g) // a pointer-typed input may come back as pointer or value: compared by value
	f := func(p geom.Point) geom.Point { x, y := stub(p.X, p.Y); return geom.Point{X: x, Y: y} }
	fs := func(ps []geom.Point) []geom.Point {
		o := make([]geom.Point, len(ps))
		for i, p := range ps {
			o[i] = f(p)
		}
		return o
	}
	switch v := g.(type) {
	case geom.Point:
		return f(v)
	case geom.MultiPoint:
		return geom.MultiPoint(fs(v))
	case geom.LineString:
		return geom.LineString(fs(v))
	case geom.MultiLineString:
		o := make(geom.MultiLineString, len(v))
		for i := range v {
			o[i] = geom.LineString(fs(v[i]))
		}
		return o
	case geom.Polygon:
		o := make(geom.Polygon, len(v))
		for i := range v {
			o[i] = geom.Path(fs(v[i]))
		}
		return o
	case geom.MultiPolygon:
		o := make(geom.MultiPolygon, len(v))
		for i := range v {
			o[i] = expected(v[i]).(geom.Polygon)
		}
		return o
	case geom.GeometryCollection:
		o := make(geom.GeometryCollection, len(v))
		for i := range v {
			o[i] = expected(v[i])
		}
		return o
	case *geom.Bounds:
		return geom.Polygon{fs([]geom.Point{v.Min, {X: v.Max.X, Y: v.Min.Y}, v.Max, {X: v.Min.X, Y: v.Max.Y}})}
	}
	panic(fmt.Sprintf("harness: unknown geometry %T", g))
}

// sameGeom compares dynamic type, nesting and every vertex (nil and empty
// slices are the same geometry).
func sameGeom(a, b geom.Geom) bool {
	if a == nil || b == nil {
		return a == nil && b == nil
	}
	a, b = deref(a), deref(b)
	if reflect.TypeOf(a) != reflect.TypeOf(b) {
		return false
	}
	eqPts := func(p, q []geom.Point) bool {
		if len(p) != len(q) {
			return false
		}
		for i := range p {
			if !bitsEq(p[i], q[i]) {
				return false
			}
		}
		return true
	}
	switch v := a.(type) {
	case geom.Point:
		return bitsEq(v, b.(geom.Point))
	case geom.MultiPoint:
		return eqPts(v, b.(geom.MultiPoint))
	case geom.LineString:
		return eqPts(v, b.(geom.LineString))
	case geom.MultiLineString:
		w := b.(geom.MultiLineString)
		if len(v) != len(w) {
			return false
		}
		for i := range v {
			if !eqPts(v[i], w[i]) {
				return false
			}
		}
		return true
	case geom.Polygon:
		w := b.(geom.Polygon)
		if len(v) != len(w) {
			return false
		}
		for i := range v {
			if !eqPts(v[i], w[i]) {
				return false
			}
		}
		return true
	case geom.MultiPolygon:
		w := b.(geom.MultiPolygon)
		if len(v) != len(w) {
			return false
		}
		for i := range v {
			if !sameGeom(v[i], w[i]) {
				return false
			}
		}
		return true
	case geom.GeometryCollection:
		w := b.(geom.GeometryCollection)
		if len(v) != len(w) {
			return false
		}
		for i := range v {
			if !sameGeom(v[i], w[i]) {
				return false
			}
		}
		return true
	case *geom.Bounds:
		w := b.(*geom.Bounds)
		return bitsEq(v.Min, w.Min) && bitsEq(v.Max, w.Max)
	}
	return false
}

func (r *run) geomOp() {
	t := r.t
	g := &gctx{r: r}
	in := g.gen(0)
	orig := deepCopy(in)
	mode := t.Choose(4, "geom-mode") // 0 nil transformer, 1 fault-free stub, 2/3 stub failing on a vertex
	desc := fmt.Sprintf("%T with %d vertices", in, len(g.verts))
	switch {
	case mode == 0:
		var out geom.Geom
		var err error
		p, v, st := core.Protect(func() { out, err = in.Transform(nil) })
		r.log.Eventf("transform(nil) %s", desc)
		if p {
			r.fail("geom-transform-panic", "nil-transformer", "%T.Transform(nil) panicked: %v %s", in, v, core.TrimStack(st, 4))
			return
		}
		if err != nil || !sameGeom(out, orig) {
			r.fail("geom-transform-nil-not-identity", fmt.Sprintf("%T", in), "%T.Transform(nil) returned (%v, %v), want the input unchanged", in, out, err)
		}
	case mode == 1 || len(g.verts) == 0:
		calls := 0
		// re-entrancy: at a tape-chosen call the transformer itself runs
		// another Geom.Transform (calls interleaved with the outer one)
		reAt := -1
		var inner, innerOrig geom.Geom
		if t.OneIn(4, "reentrant") && len(g.verts) > 0 {
			reAt = t.Choose(len(g.verts), "reentrant-at")
			g2 := &gctx{r: r, next: 1000}
			inner = g2.gen(2)
			innerOrig = deepCopy(inner)
			r.res.Probe("re-entrant-transform")
		}
		var innerBad string
		tr := func(x, y float64) (float64, float64, error) {
			if calls == reAt {
				out, err := inner.Transform(func(x, y float64) (float64, float64, error) { a, b := stub(x, y); return a, b, nil })
				if err != nil || !sameGeom(out, expected(innerOrig)) {
					innerBad = fmt.Sprintf("nested %T.Transform (run from inside the transformer of an outer %T.Transform) returned (%v, %v), want %v", inner, in, out, err, expected(innerOrig))
				}
			}
			calls++
			a, b := stub(x, y)
			return a, b, nil
		}
		var out geom.Geom
		var err error
		p, v, st := core.Protect(func() { out, err = in.Transform(tr) })
		r.log.Eventf("transform(stub) %s", desc)
		if p {
			r.fail("geom-transform-panic", "fault-free", "%T.Transform panicked with a transformer that never fails: %v %s", in, v, core.TrimStack(st, 4))
			return
		}
		if err != nil {
			r.fail("geom-transform-wrong", "spurious-error", "%T.Transform returned error %v although the transformer never failed", in, err)
			return
		}
		if innerBad != "" {
			r.fail("geom-transform-wrong", "re-entrant", "%s", innerBad)
			return
		}
		if want := expected(orig); !sameGeom(out, want) {
			r.fail("geom-transform-wrong", fmt.Sprintf("%T", in), "%T.Transform returned %v (%T), want %v: same type and nesting with vertex i = t(vertex i)", in, out, out, want)
			return
		}
		if !sameGeom(in, orig) {
			r.fail("geom-transform-mutated-input", fmt.Sprintf("%T", in), "%T.Transform modified its input: now %v, was %v", in, in, orig)
		}
	default:
		// choose the failing vertex: first / last / any
		var fi int
		switch t.Choose(3, "fault-pos") {
		case 0:
			fi = 0
		case 1:
			fi = len(g.verts) - 1
		default:
			fi = t.Choose(len(g.verts), "fault-vertex")
		}
		fv := g.verts[fi]
		fired := 0
		tr := func(x, y float64) (float64, float64, error) {
			if x == fv.X && y == fv.Y {
				fired++
				return math.NaN(), math.NaN(), errInjected
			}
			a, b := stub(x, y)
			return a, b, nil
		}
		var out geom.Geom
		var err error
		p, v, st := core.Protect(func() { out, err = in.Transform(tr) })
		r.log.Eventf("transform(stub failing on vertex %d/%d) %s -> err=%v", fi, len(g.verts), desc, err)
		if fired > 0 {
			r.res.Fault("injected-transformer-error")
			if fi > 0 {
				r.res.Probe("fault-on-non-first-vertex")
				switch in.(type) {
				case geom.MultiLineString, geom.MultiPolygon, geom.GeometryCollection, geom.Polygon:
					r.nontrivial = true
				}
			}
		}
		if p {
			r.fail("geom-transform-panic", fmt.Sprintf("%T,injected-error", in), "%T.Transform panicked when the transformer failed on vertex %d of %d: %v %s", in, fi, len(g.verts), v, core.TrimStack(st, 4))
			return
		}
		if fired == 0 {
			r.fail("geom-transform-wrong", "vertex-skipped", "%T.Transform never handed vertex %d (%v) to the transformer", in, fi, fv)
			return
		}
		if err == nil {
			r.fail("geom-transform-error-swallowed", fmt.Sprintf("%T", in), "%T.Transform returned (%v, nil) although the transformer failed on vertex %d of %d", in, out, fi, len(g.verts))
			return
		}
		if !errors.Is(err, errInjected) {
			r.fail("geom-transform-error-replaced", fmt.Sprintf("%T", in), "%T.Transform returned error %q, not the transformer's error", in, err)
			return
		}
		if !sameGeom(in, orig) {
			r.fail("geom-transform-mutated-input", fmt.Sprintf("%T,injected-error", in), "%T.Transform modified its input on the error path", in)
		}
	}
}
