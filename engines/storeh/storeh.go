// Package storeh checks property C07: the decoders (wkb.Read/Decode,
// hex.Decode, geojson.Decode/FromGeoJSON) are total on untrusted stored bytes.
//
// The simulated "system" is a store of encoded geometries on a simulated
// medium. Per run one item is written by an independent serializer (so that
// every header, count and byte-order byte has a known offset) and then read
// back through the real decoders under an *enumerated* set of storage faults
// (lost tail at every offset, flipped bits, overwritten count / type /
// byte-order fields, duplicated or spliced blocks) and, for the io.Reader
// entry point, stream faults (chunked delivery, (0,nil) reads, an I/O error or
// early EOF at every offset). An allocation meter around every decode enforces
// the memory clause.
package storeh

import (
	"bytes"
	"encoding/binary"
	stdhex "encoding/hex"
	"encoding/json"
	"errors"
	"fmt"
	"io"
	"math"
	"runtime"
	"runtime/metrics"
	"sort"
	"strings"

	"github.com/ctessum/geom"
	"github.com/ctessum/geom/encoding/geojson"
	"github.com/ctessum/geom/encoding/hex"
	"github.com/ctessum/geom/encoding/wkb"

	"verif/sim/core"
	"verif/sim/tape"
)

func init() {
	core.Register("C07", func() core.Engine { return &engine{} })
}

type engine struct{}

func (e *engine) Info() core.Info {
	return core.Info{
		Prop:  "C07",
		Level: "fault_enumeration",
		Rule:  "a case is one stored item (a tape-generated geometry of one of the seven WKB types incl. nested collections, serialised by an independent writer with uniform or per-element mixed byte orders; its hex form; its GeoJSON document; a geojson.Geometry value with an arbitrarily shaped Coordinates tree; an adversarial frame: collection nesting up to the 64 KiB bound, multi-geometries with wrongly typed children; or a random byte string) read back under the ENUMERATED fault set for that item: truncation at every offset, every single-bit flip of every header/count/byte-order/type byte (all bits of items <=256 bytes, sampled beyond), every count field overwritten with each of 13 values up to 2^32-1 and with ~330 values crafted to wrap a 32-bit size computation, every byte-order byte with all 256 values, every type code with 40 codes, block duplication/splice, and for wkb.Read an I/O error and an early EOF at every offset under several chunking schedules plus truncated media whose reader returns the last bytes together with io.EOF; hex: every string of length <=1, prefix-like 2-character strings, substitutions; GeoJSON: truncation at every offset, byte substitutions, arbitrarily shaped coordinates, and documents near the size bound with skewed shapes (one long member and thousands of empty ones, many members with one malformed); evaluations = faulted decodes; non-trivial = the fault changed at least one stored byte or the reader's behaviour; distinct = distinct hash of (entry point, faulted bytes, reader schedule)",
		Real:  []string{"wkb.Read / wkb.Decode and all per-type readers", "hex.Decode", "geojson.Decode / FromGeoJSON", "the matching encoders wkb.Encode / hex.Encode / geojson.Encode for the round-trip clause", "encoding/binary, encoding/json underneath"},
		Stubs: []string{"the storage medium and the io.Reader handed to wkb.Read (simulated: chunking, (0,nil) reads, injected error, early EOF)", "an independent WKB serializer that writes the stored items and records field offsets"},
		FaultKinds: []string{
			"truncation (lost tail) at every offset", "bit-flip", "count-overwrite", "byte-order-overwrite", "type-code-overwrite", "block-dup/splice", "zeroed-tail (torn write)",
			"reader: chunked/short reads and (0,nil) reads (legal, must not change the result)", "reader: I/O error at offset k", "reader: early EOF at offset k",
			"hex: char substitution / odd length", "json: truncation at every offset, byte substitution", "geometry value: arbitrarily shaped coordinates tree, nil receiver",
		},
		StateMeasure:  "distinct stored items (hash of the unfaulted bytes)",
		SchedMeasure:  "distinct reader schedules (chunking x fault offset x fault kind) applied to wkb.Read",
		TimeStatement: "no clock exists in the decoders; simulated time = number of faulted decode calls",
		Assumptions: []string{
			"inputs up to 64 KiB as the property states",
			"memory clause instantiated as: bytes allocated during one decode call (runtime/metrics /gc/heap/allocs:bytes delta, single goroutine) <= 1024*len(input) + 4 MiB; any constants would do, a decoder that trusts a count field exceeds this by orders of magnitude",
			"workers run under ulimit -v 4 GiB: an allocation the runtime cannot satisfy kills the worker, and the supervisor attributes the death to the journalled run (violation class process-crash)",
			"a successful decode of a truncated or error-interrupted input is only counted (probe), not reported: the statement demands a geometry or an error, not rejection",
			"round trip for the geojson.Geometry entry point goes through Encode/Decode (bytes); ToGeoJSON's typed slices are not accepted by FromGeoJSON on the unchanged tree and that is C06's subject",
		},
		QuickRuns: 10000, ThoroughRuns: 500000, QuickWallS: 90, ThoroughWallS: 1500,
		MemLimitMB: 4096, EvalsAreSteps: true,
	}
}

// ---------- independent WKB serializer with layout ----------

type layout struct {
	order  []int // offsets of byte-order bytes
	typ    []int // offsets of type codes (4 bytes)
	typLE  []bool
	count  []int // offsets of count fields (4 bytes)
	cntLE  []bool
	cntVal []uint32
}

type writer struct {
	buf   []byte
	lay   layout
	mixed bool
	le    bool
	t     *tape.Tape
}

func (w *writer) u32(v uint32, le bool) {
	var b [4]byte
	if le {
		binary.LittleEndian.PutUint32(b[:], v)
	} else {
		binary.BigEndian.PutUint32(b[:], v)
	}
	w.buf = append(w.buf, b[:]...)
}

func (w *writer) f64(v float64, le bool) {
	var b [8]byte
	if le {
		binary.LittleEndian.PutUint64(b[:], math.Float64bits(v))
	} else {
		binary.BigEndian.PutUint64(b[:], math.Float64bits(v))
	}
	w.buf = append(w.buf, b[:]...)
}

func (w *writer) header(code uint32) bool {
	le := w.le
	if w.mixed {
		le = w.t.Bool("elem-order")
	}
	w.lay.order = append(w.lay.order, len(w.buf))
	if le {
		w.buf = append(w.buf, 1)
	} else {
		w.buf = append(w.buf, 0)
	}
	w.lay.typ = append(w.lay.typ, len(w.buf))
	w.lay.typLE = append(w.lay.typLE, le)
	w.u32(code, le)
	return le
}

func (w *writer) cnt(n int, le bool) {
	w.lay.count = append(w.lay.count, len(w.buf))
	w.lay.cntLE = append(w.lay.cntLE, le)
	w.lay.cntVal = append(w.lay.cntVal, uint32(n))
	w.u32(uint32(n), le)
}

func (w *writer) points(ps []geom.Point, le bool) {
	w.cnt(len(ps), le)
	for _, p := range ps {
		w.f64(p.X, le)
		w.f64(p.Y, le)
	}
}

func (w *writer) geom(g geom.Geom) {
	switch v := g.(type) {
	case geom.Point:
		le := w.header(1)
		w.f64(v.X, le)
		w.f64(v.Y, le)
	case geom.LineString:
		le := w.header(2)
		w.points(v, le)
	case geom.Polygon:
		le := w.header(3)
		w.cnt(len(v), le)
		for _, r := range v {
			w.points(r, le)
		}
	case geom.MultiPoint:
		le := w.header(4)
		w.cnt(len(v), le)
		for _, p := range v {
			w.geom(p)
		}
	case geom.MultiLineString:
		le := w.header(5)
		w.cnt(len(v), le)
		for _, l := range v {
			w.geom(l)
		}
	case geom.MultiPolygon:
		le := w.header(6)
		w.cnt(len(v), le)
		for _, p := range v {
			w.geom(p)
		}
	case geom.GeometryCollection:
		le := w.header(7)
		w.cnt(len(v), le)
		for _, m := range v {
			w.geom(m)
		}
	default:
		panic(fmt.Sprintf("harness: cannot serialise %T", g))
	}
}

// ---------- geometry generator ----------

type gen struct {
	t      *tape.Tape
	big    bool
	exotic bool
}

func (g *gen) coord() float64 {
	t := g.t
	if g.exotic && t.OneIn(6, "coord-exotic") {
		return []float64{0, math.Copysign(0, -1), math.Inf(1), math.Inf(-1), math.NaN(), math.MaxFloat64, math.SmallestNonzeroFloat64, -1e-300}[t.Choose(8, "coord-exotic-v")]
	}
	return float64(t.Choose(2001, "coord")-1000) / 8
}

func (g *gen) pts(max int, label string) []geom.Point {
	n := g.t.Choose(max+1, label)
	if g.big && g.t.OneIn(3, "big-pts") {
		n = 200 + g.t.Choose(1800, "big-n")
	}
	out := make([]geom.Point, n)
	for i := range out {
		out[i] = geom.Point{X: g.coord(), Y: g.coord()}
	}
	return out
}

func (g *gen) geom(depth int) geom.Geom {
	t := g.t
	n := 7
	if depth >= 6 {
		n = 6
	}
	switch t.Choose(n, "geom-type") {
	case 0:
		return geom.Point{X: g.coord(), Y: g.coord()}
	case 1:
		return geom.LineString(g.pts(5, "ls-n"))
	case 2:
		p := make(geom.Polygon, t.Choose(4, "poly-rings"))
		for i := range p {
			p[i] = geom.Path(g.pts(5, "ring-n"))
		}
		return p
	case 3:
		return geom.MultiPoint(g.pts(4, "mp-n"))
	case 4:
		m := make(geom.MultiLineString, t.Choose(4, "mls-n"))
		for i := range m {
			m[i] = geom.LineString(g.pts(4, "mls-ls-n"))
		}
		return m
	case 5:
		m := make(geom.MultiPolygon, t.Choose(3, "mpoly-n"))
		for i := range m {
			p := make(geom.Polygon, t.Choose(3, "mpoly-rings"))
			for j := range p {
				p[j] = geom.Path(g.pts(4, "mpoly-ring-n"))
			}
			m[i] = p
		}
		return m
	default:
		c := make(geom.GeometryCollection, t.Choose(4, "gc-n"))
		for i := range c {
			c[i] = g.geom(depth + 1)
		}
		return c
	}
}

// ---------- equality (NaN-aware, nil == empty) ----------

func f64eq(a, b float64) bool { return math.Float64bits(a) == math.Float64bits(b) }

func ptsEq(a, b []geom.Point) bool {
	if len(a) != len(b) {
		return false
	}
	for i := range a {
		if !f64eq(a[i].X, b[i].X) || !f64eq(a[i].Y, b[i].Y) {
			return false
		}
	}
	return true
}

func geomEq(a, b geom.Geom) bool {
	if a == nil || b == nil {
		return false
	}
	switch v := a.(type) {
	case geom.Point:
		w, ok := b.(geom.Point)
		return ok && f64eq(v.X, w.X) && f64eq(v.Y, w.Y)
	case geom.LineString:
		w, ok := b.(geom.LineString)
		return ok && ptsEq(v, w)
	case geom.MultiPoint:
		w, ok := b.(geom.MultiPoint)
		return ok && ptsEq(v, w)
	case geom.Polygon:
		w, ok := b.(geom.Polygon)
		if !ok || len(v) != len(w) {
			return false
		}
		for i := range v {
			if !ptsEq(v[i], w[i]) {
				return false
			}
		}
		return true
	case geom.MultiLineString:
		w, ok := b.(geom.MultiLineString)
		if !ok || len(v) != len(w) {
			return false
		}
		for i := range v {
			if !ptsEq(v[i], w[i]) {
				return false
			}
		}
		return true
	case geom.MultiPolygon:
		w, ok := b.(geom.MultiPolygon)
		if !ok || len(v) != len(w) {
			return false
		}
		for i := range v {
			if !geomEq(v[i], w[i]) {
				return false
			}
		}
		return true
	case geom.GeometryCollection:
		w, ok := b.(geom.GeometryCollection)
		if !ok || len(v) != len(w) {
			return false
		}
		for i := range v {
			if !geomEq(v[i], w[i]) {
				return false
			}
		}
		return true
	}
	return false
}

// wellFormed: non-nil, of a type the decoder may produce, members non-nil.
func wellFormed(g geom.Geom, allowCollection bool) string {
	switch v := g.(type) {
	case nil:
		return "nil geometry"
	case geom.Point, geom.LineString, geom.MultiPoint, geom.Polygon, geom.MultiLineString, geom.MultiPolygon:
		return ""
	case geom.GeometryCollection:
		if !allowCollection {
			return "GeometryCollection from a decoder that has no such type"
		}
		for i, m := range v {
			if s := wellFormed(m, true); s != "" {
				return fmt.Sprintf("collection member %d: %s", i, s)
			}
		}
		return ""
	default:
		return fmt.Sprintf("unexpected dynamic type %T", g)
	}
}

// ---------- allocation meter ----------

var allocSample = []metrics.Sample{{Name: "/gc/heap/allocs:bytes"}}

func allocated() uint64 {
	metrics.Read(allocSample)
	return allocSample[0].Value.Uint64()
}

// meter runs f (a self-contained, deterministic decode) and returns the bytes
// it allocated. The cheap counter (runtime/metrics) lags behind by up to a few
// MiB because small-object statistics are flushed span by span; whenever its
// reading is anywhere near the budgets used here (>= 1 MiB) the decode is run
// once more between two runtime.ReadMemStats calls, which flush the caches and
// give the exact figure, so that the verdict never depends on that lag.
func meter(f func()) uint64 {
	before := allocated()
	f()
	used := allocated() - before
	if used >= 1<<20 {
		var m runtime.MemStats
		runtime.ReadMemStats(&m)
		t0 := m.TotalAlloc
		f()
		runtime.ReadMemStats(&m)
		used = m.TotalAlloc - t0
	}
	return used
}

// ---------- simulated reader ----------

var errEIO = errors.New("verif: injected I/O error")

type simReader struct {
	data        []byte
	pos         int
	chunk       int // max bytes per Read (0 = all)
	failAt      int // -1 = never; a Read that would cross failAt delivers up to it, then the next returns err
	failErr     error
	zeroAt      int // every zeroAt-th Read returns (0, nil) once (0 = never)
	reads       int
	fired       bool
	eofWithData bool
}

func (s *simReader) Read(p []byte) (int, error) {
	s.reads++
	if len(p) == 0 {
		return 0, nil
	}
	if s.zeroAt > 0 && s.reads%s.zeroAt == 0 {
		return 0, nil
	}
	limit := len(s.data)
	if s.failAt >= 0 && s.failAt < limit {
		limit = s.failAt
	}
	if s.pos >= limit {
		if s.failAt >= 0 && s.pos >= s.failAt {
			s.fired = true
			return 0, s.failErr
		}
		return 0, io.EOF
	}
	n := len(p)
	if s.chunk > 0 && n > s.chunk {
		n = s.chunk
	}
	if n > limit-s.pos {
		n = limit - s.pos
	}
	copy(p, s.data[s.pos:s.pos+n])
	s.pos += n
	if s.eofWithData && s.pos == len(s.data) && (s.failAt < 0 || s.failAt >= len(s.data)) {
		return n, io.EOF
	}
	return n, nil
}

// ---------- the run ----------

type deferred struct {
	kind string
	in   []byte
	orig []byte
}

type run struct {
	notes     int // sample notes written so far (trace mode)
	late      []deferred
	inLate    bool
	t         *tape.Tape
	log       *core.Log
	res       *core.Result
	seen      map[uint64]struct{}
	nDistinct int
	scheds    map[uint64]struct{}
	evals     int64
}

func (e *engine) Run(t *tape.Tape, trace bool) core.Result {
	res := core.Result{}
	r := &run{t: t, log: core.NewLog(trace), res: &res, seen: map[uint64]struct{}{}, scheds: map[uint64]struct{}{}}
	r.exec()
	res.Steps = r.evals
	res.LogHash = r.log.Hash()
	res.Events = r.log.Count()
	res.Trace = r.log.Lines
	res.NonTrivial = r.nDistinct >= 1
	res.CaseHash = res.LogHash
	for s := range r.scheds {
		res.Scheds = append(res.Scheds, s)
	}
	for c := range r.seen {
		res.Cases = append(res.Cases, c)
	}
	sort.Slice(res.Scheds, func(i, j int) bool { return res.Scheds[i] < res.Scheds[j] })
	sort.Slice(res.Cases, func(i, j int) bool { return res.Cases[i] < res.Cases[j] })
	return res
}

func (r *run) fail(class, detail, format string, a ...interface{}) {
	if r.res.Viol == nil {
		r.res.Viol = &core.Violation{Class: class, Detail: detail, Msg: fmt.Sprintf(format, a...)}
		r.log.Violation(class, r.res.Viol.Msg)
	}
}

func hexdump(b []byte) string {
	if len(b) > 96 {
		return stdhex.EncodeToString(b[:96]) + fmt.Sprintf("…(%d bytes)", len(b))
	}
	return stdhex.EncodeToString(b)
}

const allowance = 4 << 20

func budget(n int) uint64 { return uint64(1024*n) + allowance }

// checkDecode runs one decode call under the oracle. entry: "wkb", "hex".
func (r *run) note(kind string, changed bool, key uint64) {
	r.evals++
	r.res.Fault(kind)
	if changed {
		if _, ok := r.seen[key]; !ok {
			r.seen[key] = struct{}{}
			r.nDistinct++
		}
	}
}

// maxClaim walks a WKB byte string the way a decoder would, without
// allocating, and returns the largest count field it meets before the data
// runs out or stops making sense.
func maxClaim(b []byte) uint32 {
	var max uint32
	pos := 0
	var elem func(depth int) bool
	rd32 := func(le bool) (uint32, bool) {
		if pos+4 > len(b) {
			return 0, false
		}
		var v uint32
		if le {
			v = binary.LittleEndian.Uint32(b[pos:])
		} else {
			v = binary.BigEndian.Uint32(b[pos:])
		}
		pos += 4
		return v, true
	}
	points := func(le bool) bool {
		n, ok := rd32(le)
		if !ok {
			return false
		}
		if n > max {
			max = n
		}
		if uint64(pos)+uint64(n)*16 > uint64(len(b)) {
			return false
		}
		pos += int(n) * 16
		return true
	}
	elem = func(depth int) bool {
		if pos >= len(b) || depth > 8000 || b[pos] > 1 {
			return false
		}
		le := b[pos] == 1
		pos++
		code, ok := rd32(le)
		if !ok {
			return false
		}
		switch code {
		case 1:
			pos += 16
			return pos <= len(b)
		case 2:
			return points(le)
		case 3, 4, 5, 6, 7:
			n, ok := rd32(le)
			if !ok {
				return false
			}
			if n > max {
				max = n
			}
			for i := uint32(0); i < n; i++ {
				if code == 3 {
					if !points(le) {
						return false
					}
				} else if !elem(depth + 1) {
					return false
				}
			}
			return true
		}
		return false
	}
	elem(0)
	return max
}

// hugeClaim is the threshold above which an input is tried only after all
// other faults of the run: a decoder that trusts counts is then reported by
// the allocation meter (replayable tape) before a count that the process
// cannot survive is tried (reported too, as a process death).
const hugeClaim = 1 << 24

// minimalFrames are the smallest frames that announce n elements of each
// kind without carrying any payload.
func minimalFrames(n uint32) [][]byte {
	var out [][]byte
	for _, le := range []bool{true, false} {
		ob := byte(0)
		if le {
			ob = 1
		}
		hdr := func(code uint32) []byte {
			b := []byte{ob, 0, 0, 0, 0}
			put32(b, 1, code, le)
			return b
		}
		cnt := func(b []byte, v uint32) []byte {
			b = append(b, 0, 0, 0, 0)
			put32(b, len(b)-4, v, le)
			return b
		}
		for code := uint32(2); code <= 7; code++ {
			out = append(out, cnt(hdr(code), n)) // the element's own count
		}
		out = append(out, cnt(cnt(hdr(3), 1), n))                                                      // points of a polygon's first ring
		out = append(out, cnt(append(cnt(hdr(5), 1), hdr(2)...), n))                                   // points of a multilinestring member
		out = append(out, cnt(append(cnt(hdr(6), 1), hdr(3)...), n))                                   // rings of a multipolygon member
		out = append(out, cnt(cnt(append(cnt(hdr(6), 1), hdr(3)...), 1), n))                           // points of a ring of a multipolygon member
		out = append(out, cnt(append(cnt(hdr(7), 1), hdr(7)...), n))                                   // nested collection
		out = append(out, cnt(append(cnt(hdr(7), 2), append(hdr(1), make([]byte, 16)...)...), 0)[:30]) // collection: point then truncated
	}
	return out
}

func (r *run) flushLate() {
	if len(r.late) > 0 {
		// before any input that announces more than the process could
		// survive if trusted: every kind of count on a minimal frame with a
		// moderate claim (64 MiB if trusted) — the allocation meter reports a
		// trusting decoder here, with a replayable tape.
		for _, f := range minimalFrames(1 << 22) {
			if r.res.Viol != nil {
				break
			}
			r.inLate = true
			r.wkbBytes("count-overwrite(minimal-frame)", f, nil)
			r.inLate = false
		}
	}
	r.inLate = true
	for _, d := range r.late {
		if r.res.Viol != nil {
			break
		}
		r.wkbBytes(d.kind, d.in, d.orig)
	}
	r.late = nil
	r.inLate = false
}

func (r *run) wkbBytes(kind string, in []byte, orig []byte) {
	if r.res.Viol != nil || len(in) > 65536 {
		return
	}
	if !r.inLate && maxClaim(in) > hugeClaim {
		r.late = append(r.late, deferred{kind, in, orig})
		return
	}
	changed := !bytes.Equal(in, orig)
	r.note(kind, changed, uint64(core.NewHasher().Str("wkb").Str(string(in))))
	var g geom.Geom
	var err error
	var p bool
	var v interface{}
	var st string
	used := meter(func() { p, v, st = core.Protect(func() { g, err = wkb.Decode(in) }) })
	r.log.EventInts("wkb."+kind, int64(len(in)), b2i(err == nil))
	if r.log.Keep && r.notes < 40 {
		r.notes++
		r.log.Note("      ^ wkb.Decode(%s) under fault %q -> ok=%v, %d bytes allocated", hexdump(in), kind, err == nil, used)
	}
	if p {
		r.fail("panic", "wkb.Decode,"+kind, "wkb.Decode panicked on %d bytes (%s; fault %s): %v %s", len(in), hexdump(in), kind, v, core.TrimStack(st, 4))
		return
	}
	if used > budget(len(in)) {
		r.fail("alloc-unbounded", "wkb.Decode,"+kind, "wkb.Decode allocated %d bytes for a %d-byte input (%s; fault %s); bound 1024*len+4MiB = %d", used, len(in), hexdump(in), kind, budget(len(in)))
		return
	}
	r.after("wkb.Decode", kind, in, g, err)
}

func b2i(b bool) int64 {
	if b {
		return 1
	}
	return 0
}

// after applies result-shape and round-trip oracles for WKB/hex results.
func (r *run) after(entry, kind string, in []byte, g geom.Geom, err error) {
	if err != nil {
		if g != nil {
			r.res.Probe("geometry-returned-with-error")
		}
		return
	}
	if s := wellFormed(g, true); s != "" {
		r.fail("neither-geometry-nor-error", entry+","+kind, "%s returned (%v, nil) for %s: %s", entry, g, hexdump(in), s)
		return
	}
	var enc []byte
	var eerr error
	var g2 geom.Geom
	var derr error
	p, v, st := core.Protect(func() {
		enc, eerr = wkb.Encode(g, wkb.NDR)
		if eerr == nil {
			g2, derr = wkb.Decode(enc)
		}
	})
	if p {
		r.fail("panic", entry+",round-trip", "re-encoding/decoding the result of %s(%s) panicked: %v %s", entry, hexdump(in), v, core.TrimStack(st, 4))
		return
	}
	if eerr != nil || derr != nil || !geomEq(g, g2) {
		r.fail("round-trip-mismatch", entry, "%s(%s) succeeded with %v, but re-encoding and decoding gives (%v, encode err %v, decode err %v)", entry, hexdump(in), g, g2, eerr, derr)
	}
}

func (r *run) exec() {
	t := r.t
	kind := t.Choose(11, "item-kind")
	switch {
	case kind == 10:
		r.skewedJSON()
	case kind <= 3:
		r.wkbItem(false)
	case kind == 4:
		r.wkbItem(true) // stream entry point
	case kind == 5:
		r.hexItem()
	case kind == 6:
		r.jsonItem()
	case kind == 7:
		r.valueItem()
	case kind == 8:
		r.adversarial()
	default:
		r.randomBytes()
	}
	r.flushLate()
}

// element sizes for which wrap-around counts are generated: a point (16), a
// point record inside a multipoint (21), an element header (5, 9), slice
// headers (24), and neighbours
var wrapSizes = []uint64{3, 5, 7, 9, 12, 13, 16, 17, 20, 21, 24, 25, 32, 33, 37, 40, 48}

var countValues = []uint32{0, 1, 2, 1 << 16, 1 << 20, 1 << 22, 1 << 24, 1 << 28, 1 << 31, 1<<32 - 1, 0x01000000}

var typeCodes = []uint32{0, 1, 2, 3, 4, 5, 6, 7, 8, 9, 10, 11, 12, 13, 14, 15, 16, 17, 18, 100, 1000, 1001, 1003, 1007, 2001, 2003, 3001, 0x20000001, 0x40000001, 0x80000001, 0xa0000003, 0xe0000007, 0x01000000, 0x07000000, 0xff, 0xffff, 0xffffff, 0xffffffff, 0x7fffffff, 0x80000000}

func (r *run) makeItem() ([]byte, *layout, geom.Geom) {
	t := r.t
	g := &gen{t: t, big: t.OneIn(12, "big-item"), exotic: t.OneIn(3, "exotic-coords")}
	gm := g.geom(0)
	w := &writer{t: t, mixed: t.OneIn(3, "mixed-orders"), le: t.Bool("order")}
	w.geom(gm)
	return w.buf, &w.lay, gm
}

func put32(b []byte, off int, v uint32, le bool) {
	if le {
		binary.LittleEndian.PutUint32(b[off:], v)
	} else {
		binary.BigEndian.PutUint32(b[off:], v)
	}
}

func clone(b []byte) []byte { return append([]byte(nil), b...) }

func (r *run) wkbItem(stream bool) {
	item, lay, gm := r.makeItem()
	r.log.Eventf("item wkb %d bytes stream=%v %T", len(item), stream, gm)
	r.res.States = []uint64{uint64(core.NewHasher().Str(string(item)))}
	// sanity (not part of C07): the unfaulted item decodes to the geometry
	if g0, err := wkb.Decode(item); err != nil || !geomEq(g0, gm) {
		r.res.Probe("valid-item-not-decoded-to-original")
	}
	if stream {
		r.streamFaults(item)
		return
	}
	r.wkbBytes("none", item, item)
	// truncation at every offset
	step := 1
	if len(item) > 2048 {
		step = 1 + len(item)/1024
	}
	for k := 0; k < len(item) && r.res.Viol == nil; k += step {
		r.wkbBytes("truncate", item[:k], item)
	}
	// every count field x every value (+ n-1, n+1)
	for i, off := range lay.count {
		if r.res.Viol != nil {
			return
		}
		// moderate inflations first: a decoder that trusts the count is then
		// reported by the allocation meter with a replayable tape before a
		// huge count can kill the worker (which is reported too, seed-only)
		vals := append(append([]uint32{}, countValues...), lay.cntVal[i]+1, lay.cntVal[i]-1)
		for _, v := range vals {
			b := clone(item)
			put32(b, off, v, lay.cntLE[i])
			r.wkbBytes("count-overwrite", b, item)
		}
		// counts crafted to wrap a 32-bit size computation: the smallest c with
		// c*m >= k*2^32 for plausible element sizes m (c*m mod 2^32 is then
		// tiny, so a guard computed in uint32 passes)
		if i < 3 {
			for _, m := range wrapSizes {
				for k := uint64(1); k < m; k++ {
					c := (k<<32 + m - 1) / m
					b := clone(item)
					put32(b, off, uint32(c), lay.cntLE[i])
					r.wkbBytes("count-overwrite(wraps-size)", b, item)
				}
			}
		}
		// the count written in the *other* byte order (a classic corruption)
		b := clone(item)
		put32(b, off, lay.cntVal[i], !lay.cntLE[i])
		r.wkbBytes("count-overwrite", b, item)
	}
	// every byte-order byte x 256 (first 4 elements), a sample of values beyond
	for i, off := range lay.order {
		if r.res.Viol != nil {
			return
		}
		if i < 4 {
			for v := 0; v < 256; v++ {
				b := clone(item)
				b[off] = byte(v)
				r.wkbBytes("byte-order-overwrite", b, item)
			}
		} else {
			for _, v := range []byte{0, 1, 2, 0xff} {
				b := clone(item)
				b[off] = v
				r.wkbBytes("byte-order-overwrite", b, item)
			}
		}
	}
	// every type code x 40 codes (first 6 elements; all codes 1..7 beyond)
	for i, off := range lay.typ {
		if r.res.Viol != nil {
			return
		}
		codes := typeCodes
		if i >= 6 {
			codes = typeCodes[:8]
		}
		for _, c := range codes {
			b := clone(item)
			put32(b, off, c, lay.typLE[i])
			r.wkbBytes("type-code-overwrite", b, item)
		}
	}
	// bit flips: all bits of small items; header/count/type bytes of large ones + sampled others
	if len(item) <= 256 {
		for bit := 0; bit < len(item)*8 && r.res.Viol == nil; bit++ {
			b := clone(item)
			b[bit/8] ^= 1 << uint(bit%8)
			r.wkbBytes("bit-flip", b, item)
		}
	} else {
		offs := map[int]bool{}
		for _, o := range lay.order {
			offs[o] = true
		}
		for _, o := range append(append([]int{}, lay.typ...), lay.count...) {
			for k := 0; k < 4; k++ {
				offs[o+k] = true
			}
		}
		n := 0
		for o := 0; o < len(item) && n < 400; o++ {
			if !offs[o] {
				continue
			}
			n++
			for k := 0; k < 8 && r.res.Viol == nil; k++ {
				b := clone(item)
				b[o] ^= 1 << uint(k)
				r.wkbBytes("bit-flip", b, item)
			}
		}
		for i := 0; i < 200 && r.res.Viol == nil; i++ {
			b := clone(item)
			bit := r.t.Choose(len(item)*8, "flip-bit")
			b[bit/8] ^= 1 << uint(bit%8)
			r.wkbBytes("bit-flip", b, item)
		}
	}
	// torn write: tail zeroed from every 4th offset
	for k := 0; k < len(item) && k < 512 && r.res.Viol == nil; k += 4 {
		b := clone(item)
		for j := k; j < len(b); j++ {
			b[j] = 0
		}
		r.wkbBytes("zeroed-tail", b, item)
	}
	// block duplication / splice, sampled
	for i := 0; i < 24 && r.res.Viol == nil && len(item) > 1; i++ {
		a := r.t.Choose(len(item), "splice-from")
		n := 1 + r.t.Choose(len(item)-a, "splice-len")
		at := r.t.Choose(len(item)+1, "splice-at")
		b := append(append(clone(item[:at]), item[a:a+n]...), item[at:]...)
		r.wkbBytes("block-dup/splice", b, item)
	}
	// multi-fault combinations, sampled
	for i := 0; i < 24 && r.res.Viol == nil && len(lay.count) > 0; i++ {
		b := clone(item)
		ci := r.t.Choose(len(lay.count), "multi-count")
		put32(b, lay.count[ci], countValues[r.t.Choose(len(countValues), "multi-count-v")], lay.cntLE[ci])
		k := r.t.Choose(len(b)+1, "multi-trunc")
		r.wkbBytes("count-overwrite+truncate", b[:k], item)
	}
}

func step0(n int) int {
	if n > 1024 {
		return 1 + n/512
	}
	return 1
}

// streamFaults drives wkb.Read through the simulated reader.
func (r *run) streamFaults(item []byte) {
	// fault-free consumption and result
	base := &simReader{data: item, failAt: -1}
	g0, err0 := wkb.Read(base)
	consumed := base.pos
	type sched struct {
		chunk, zeroAt int
		eofData       bool
	}
	scheds := []sched{{0, 0, false}, {1, 0, false}, {3, 7, false}, {0, 0, true}, {5, 0, true}}
	try := func(kind string, s sched, failAt int, ferr error) {
		if r.res.Viol != nil {
			return
		}
		mk := func() *simReader {
			return &simReader{data: item, chunk: s.chunk, zeroAt: s.zeroAt, failAt: failAt, failErr: ferr, eofWithData: s.eofData}
		}
		rd := mk()
		key := uint64(core.NewHasher().Str("stream").Str(string(item)).Int(s.chunk).Int(s.zeroAt).Int(failAt).Str(kind))
		r.note(kind, true, key)
		r.scheds[uint64(core.NewHasher().Int(s.chunk).Int(s.zeroAt).Int(failAt).Str(kind))] = struct{}{}
		var g geom.Geom
		var err error
		var p bool
		var v interface{}
		var st string
		used := meter(func() { rd = mk(); p, v, st = core.Protect(func() { g, err = wkb.Read(rd) }) })
		r.log.EventInts("stream."+kind, int64(s.chunk), int64(s.zeroAt), int64(failAt), b2i(err == nil))
		if p {
			r.fail("panic", "wkb.Read,"+kind, "wkb.Read panicked (item %s, chunk %d, zero-read every %d, %s at offset %d): %v %s", hexdump(item), s.chunk, s.zeroAt, kind, failAt, v, core.TrimStack(st, 4))
			return
		}
		if used > budget(len(item)) {
			r.fail("alloc-unbounded", "wkb.Read,"+kind, "wkb.Read allocated %d bytes for a %d-byte stream", used, len(item))
			return
		}
		if err == nil {
			if s := wellFormed(g, true); s != "" {
				r.fail("neither-geometry-nor-error", "wkb.Read,"+kind, "wkb.Read returned (%v, nil): %s", g, s)
				return
			}
		}
		if failAt < 0 || failAt >= consumed {
			// legal reader behaviour only (or a fault beyond what the decoder needs): the result must not change
			if (err == nil) != (err0 == nil) || (err == nil && !geomEq(g, g0)) {
				r.fail("reader-schedule-changed-result", kind, "wkb.Read of %s gives (%v, %v) with one full read but (%v, %v) with chunk=%d, (0,nil) read every %d, EOF-with-data=%v, %s at offset %d (decoder consumes %d bytes)", hexdump(item), g0, err0, g, err, s.chunk, s.zeroAt, s.eofData, kind, failAt, consumed)
			}
			return
		}
		if err == nil {
			r.res.Probe("success-despite-reader-fault-inside-consumed-range")
		}
	}
	for _, s := range scheds {
		try("reader-chunking", s, -1, nil)
	}
	// lost tail on a medium whose reader hands out the last bytes together
	// with io.EOF (allowed by the io.Reader contract), at every offset and
	// with chunk sizes that do and do not divide the element size
	full := item
	for k := 0; k < len(full) && r.res.Viol == nil; k += step0(len(full)) {
		for _, ch := range []int{0, 5, 19} {
			item = full[:k]
			mk := func() *simReader { return &simReader{data: item, chunk: ch, failAt: -1, eofWithData: true} }
			rd := mk()
			key := uint64(core.NewHasher().Str("stream-trunc").Str(string(item)).Int(ch))
			r.note("reader-truncated-eof-with-data", true, key)
			var g geom.Geom
			var err error
			var p bool
			var v interface{}
			var st string
			used := meter(func() { rd = mk(); p, v, st = core.Protect(func() { g, err = wkb.Read(rd) }) })
			r.log.EventInts("stream.trunc-eof-data", int64(k), int64(ch), b2i(err == nil))
			if p {
				r.fail("panic", "wkb.Read,reader-truncated-eof-with-data", "wkb.Read panicked on a stream cut after %d of %d bytes whose reader returns its last chunk (chunk size %d) together with io.EOF: %v %s", k, len(full), ch, v, core.TrimStack(st, 4))
			} else if used > budget(len(item)) {
				r.fail("alloc-unbounded", "wkb.Read,reader-truncated-eof-with-data", "wkb.Read allocated %d bytes for a %d-byte stream", used, len(item))
			} else if err == nil {
				if s := wellFormed(g, true); s != "" {
					r.fail("neither-geometry-nor-error", "wkb.Read,reader-truncated-eof-with-data", "wkb.Read returned (%v, nil): %s", g, s)
				} else if k < consumed {
					r.res.Probe("success-despite-reader-fault-inside-consumed-range")
				}
			}
		}
	}
	item = full
	step := 1
	if len(item) > 1024 {
		step = 1 + len(item)/512
	}
	for k := 0; k <= len(item) && r.res.Viol == nil; k += step {
		for si, s := range scheds[:3] {
			if si > 0 && k%3 != 0 {
				continue
			}
			try("reader-io-error", s, k, errEIO)
			try("reader-early-eof", s, k, io.EOF)
		}
	}
	_ = err0
}

func (r *run) hexItem() {
	item, lay, _ := r.makeItem()
	s := stdhex.EncodeToString(item)
	if r.t.Bool("hex-upper") {
		s = string(bytes.ToUpper([]byte(s)))
	}
	r.log.Eventf("item hex %d chars", len(s))
	r.res.States = []uint64{uint64(core.NewHasher().Str(s))}
	var lateHex [][2]string
	inLateHex := false
	var do func(kind, in string)
	defer func() {
		inLateHex = true
		for _, kv := range lateHex {
			do(kv[0], kv[1])
		}
	}()
	do = func(kind, in string) {
		if r.res.Viol != nil || len(in) > 65536 {
			return
		}
		if !inLateHex {
			if raw, err := stdhex.DecodeString(in); err == nil && maxClaim(raw) > hugeClaim {
				lateHex = append(lateHex, [2]string{kind, in})
				return
			}
		}
		r.note("hex:"+kind, in != s, uint64(core.NewHasher().Str("hex").Str(in)))
		var g geom.Geom
		var err error
		var p bool
		var v interface{}
		var st string
		used := meter(func() { p, v, st = core.Protect(func() { g, err = hex.Decode(in) }) })
		r.log.EventInts("hex."+kind, int64(len(in)), b2i(err == nil))
		if p {
			r.fail("panic", "hex.Decode,"+kind, "hex.Decode panicked on %q (fault %s): %v %s", trunc(in), kind, v, core.TrimStack(st, 4))
			return
		}
		if used > budget(len(in)) {
			r.fail("alloc-unbounded", "hex.Decode,"+kind, "hex.Decode allocated %d bytes for a %d-char input %q", used, len(in), trunc(in))
			return
		}
		r.after("hex.Decode", kind, []byte(in), g, err)
		if err == nil && r.res.Viol == nil {
			// round trip through the hex encoder as well
			var s2 string
			var e2 error
			var g2 geom.Geom
			p, v, st := core.Protect(func() {
				s2, e2 = hex.Encode(g, wkb.XDR)
				if e2 == nil {
					g2, e2 = hex.Decode(s2)
				}
			})
			if p {
				r.fail("panic", "hex,round-trip", "hex round trip panicked: %v %s", v, core.TrimStack(st, 4))
			} else if e2 != nil || !geomEq(g, g2) {
				r.fail("round-trip-mismatch", "hex.Decode", "hex.Decode(%q) = %v but hex.Encode/Decode of it gives (%v, %v)", trunc(in), g, g2, e2)
			}
		}
	}
	do("none", s)
	for k := 0; k < len(s) && k < 600; k++ {
		do("truncate", s[:k])
	}
	for i := 0; i < len(s) && i < 64; i++ {
		for _, c := range []byte{'g', 'G', ' ', 0, 0xff, 'x', '-'} {
			b := []byte(s)
			b[i] = c
			do("char-substitution", string(b))
		}
	}
	do("prefix", "0x"+s)
	do("prefix", "\\x"+s)
	do("prefix", "#"+s)
	do("whitespace", s+"\n")
	// every string of length <= 1, and every 2-char string starting with a
	// character that a lenient decoder might treat as a prefix
	do("short-string", "")
	for c := 0; c < 256; c++ {
		do("short-string", string([]byte{byte(c)}))
	}
	for _, p := range []byte{'\\', '0', 'x', 'X', '#', ' '} {
		for c := 0; c < 256; c++ {
			do("short-string", string([]byte{p, byte(c)}))
		}
	}
	for i, off := range lay.count {
		for _, v := range countValues {
			b := clone(item)
			put32(b, off, v, lay.cntLE[i])
			do("count-overwrite", stdhex.EncodeToString(b))
		}
	}
	for _, off := range lay.order {
		for _, v := range []byte{2, 0x7f, 0x80, 0xff} {
			b := clone(item)
			b[off] = v
			do("byte-order-overwrite", stdhex.EncodeToString(b))
		}
	}
}

func trunc(s string) string {
	if len(s) > 120 {
		return s[:120] + "…"
	}
	return s
}

// ---------- GeoJSON ----------

func (r *run) jsonDecode(kind string, in []byte, orig []byte) {
	if r.res.Viol != nil || len(in) > 65536 {
		return
	}
	r.note("json:"+kind, !bytes.Equal(in, orig), uint64(core.NewHasher().Str("json").Str(string(in))))
	var g geom.Geom
	var err error
	var p bool
	var v interface{}
	var st string
	used := meter(func() { p, v, st = core.Protect(func() { g, err = geojson.Decode(in) }) })
	r.log.EventInts("json."+kind, int64(len(in)), b2i(err == nil))
	if p {
		r.fail("panic", "geojson.Decode,"+kind, "geojson.Decode panicked on %q: %v %s", trunc(string(in)), v, core.TrimStack(st, 4))
		return
	}
	if used > budget(len(in)) {
		r.fail("alloc-unbounded", "geojson.Decode,"+kind, "geojson.Decode allocated %d bytes for %d bytes of input", used, len(in))
		return
	}
	r.afterJSON("geojson.Decode", kind, trunc(string(in)), g, err)
}

func (r *run) afterJSON(entry, kind, in string, g geom.Geom, err error) {
	if err != nil {
		return
	}
	if s := wellFormed(g, false); s != "" {
		r.fail("neither-geometry-nor-error", entry+","+kind, "%s returned (%v, nil) for %s: %s", entry, g, in, s)
		return
	}
	var enc []byte
	var e2 error
	var g2 geom.Geom
	p, v, st := core.Protect(func() {
		enc, e2 = geojson.Encode(g)
		if e2 == nil {
			g2, e2 = geojson.Decode(enc)
		}
	})
	if p {
		r.fail("panic", entry+",round-trip", "GeoJSON round trip of %v panicked: %v %s", g, v, core.TrimStack(st, 4))
		return
	}
	if e2 != nil || !geomEq(g, g2) {
		r.fail("round-trip-mismatch", entry, "%s(%s) = %v (%T) but Encode gives %q and Decode of that gives (%v, %v)", entry, in, g, g, trunc(string(enc)), g2, e2)
	}
}

func (r *run) jsonItem() {
	t := r.t
	g := &gen{t: t}
	var gm geom.Geom
	for {
		gm = g.geom(6)
		if _, isC := gm.(geom.GeometryCollection); !isC {
			break
		}
	}
	doc, err := geojson.Encode(gm)
	if err != nil {
		panic("harness: geojson.Encode of a supported type failed: " + err.Error())
	}
	r.log.Eventf("item json %d bytes %T", len(doc), gm)
	r.res.States = []uint64{uint64(core.NewHasher().Str(string(doc)))}
	r.jsonDecode("none", doc, doc)
	for k := 0; k < len(doc) && k < 1500; k++ {
		r.jsonDecode("truncate", doc[:k], doc)
	}
	subs := []byte{'[', ']', '{', '}', ',', '"', '0', '-', 'e', 'n', ' ', 0, 0xff}
	for i := 0; i < len(doc) && i < 400; i++ {
		c := subs[(i+int(doc[i]))%len(subs)]
		b := clone(doc)
		b[i] = c
		r.jsonDecode("byte-substitution", b, doc)
	}
	// syntactically valid documents with a mutated coordinates member
	for i := 0; i < 40 && r.res.Viol == nil; i++ {
		typ := []string{"Point", "MultiPoint", "LineString", "MultiLineString", "Polygon", "MultiPolygon", "GeometryCollection", "Feature", "point", ""}[t.Choose(10, "doc-type")]
		tree := r.tree(0)
		b, err := json.Marshal(map[string]interface{}{"type": typ, "coordinates": tree})
		if err != nil {
			continue
		}
		r.jsonDecode("shaped-coordinates", b, doc)
	}
	for _, d := range []string{`null`, `[]`, `{}`, `{"type":"Point"}`, `{"type":"Point","coordinates":null}`, `{"coordinates":[1,2]}`, `{"type":5,"coordinates":[1,2]}`, `{"type":"Polygon","coordinates":[[]]}`, `{"type":"MultiPolygon","coordinates":[[[]]]}`, `{"type":"MultiPolygon","coordinates":[[],[[[1,2]]]]}`, `{"type":"MultiLineString","coordinates":[[],[[1,2]]]}`, `{"type":"Point","coordinates":[1e400,2]}`, `{"type":"Point","coordinates":[1,2],"coordinates":[3]}`, `{"type":"LineString","coordinates":[[1,2],[3]]}`, `{"type":"LineString","coordinates":[[1,2,3],[4,5,6]]}`, `{"type":"Polygon","coordinates":[[[1,2]],[[3,4,5]]]}`} {
		r.jsonDecode("hand-built", []byte(d), doc)
	}
}

// tree builds an arbitrarily shaped coordinates value.
func (r *run) tree(depth int) interface{} {
	t := r.t
	k := t.Choose(12, "tree-kind")
	if depth >= 5 && k < 4 {
		k = 4
	}
	switch k {
	case 0, 1, 2, 3:
		n := t.Choose(4, "tree-n")
		a := make([]interface{}, n)
		for i := range a {
			a[i] = r.tree(depth + 1)
		}
		return a
	case 4, 5, 6:
		return float64(t.Choose(200, "tree-num")) / 4
	case 7:
		return "str"
	case 8:
		return nil
	case 9:
		return map[string]interface{}{"x": 1.0}
	case 10:
		return true
	default:
		return []interface{}{1.5, 2.5}
	}
}

// valueTree additionally produces Go values json.Unmarshal never would.
func (r *run) valueTree(depth int) interface{} {
	t := r.t
	k := t.Choose(17, "vtree-kind")
	if depth >= 5 && k < 4 {
		k = 4
	}
	switch k {
	case 0, 1, 2, 3:
		n := t.Choose(4, "vtree-n")
		a := make([]interface{}, n)
		for i := range a {
			a[i] = r.valueTree(depth + 1)
		}
		return a
	case 4, 5:
		return float64(t.Choose(200, "vtree-num")) / 4
	case 6:
		return 7 // int, not float64
	case 7:
		return []float64{1, 2}
	case 8:
		return [][]float64{{1, 2}, {3, 4}}
	case 9:
		return nil
	case 10:
		return "s"
	case 11:
		return map[string]interface{}{}
	case 12:
		return float32(1.5)
	case 13:
		return []interface{}(nil)
	case 14:
		return json.Number("1.5")
	case 15:
		// a value that contains itself (directly or through a second slice):
		// legal Go, never produced by json.Unmarshal
		a := make([]interface{}, 2)
		b := []interface{}{a, 1.5}
		a[0], a[1] = 2.5, b
		if t.Bool("vtree-self") {
			a[0] = a
		}
		return a
	default:
		return []interface{}{1.5, 2.5}
	}
}

// describe prints a coordinates value, cutting cycles and depth.
func describe(v interface{}, depth int) string {
	if depth > 6 {
		return "…"
	}
	if a, ok := v.([]interface{}); ok {
		parts := make([]string, 0, len(a))
		for _, e := range a {
			parts = append(parts, describe(e, depth+1))
		}
		return "[" + strings.Join(parts, " ") + "]"
	}
	return fmt.Sprintf("%v", v)
}

func (r *run) valueItem() {
	t := r.t
	r.log.Event("item geojson.Geometry values")
	for i := 0; i < 60 && r.res.Viol == nil; i++ {
		var gv *geojson.Geometry
		desc := "nil *Geometry"
		if !t.OneIn(20, "nil-receiver") {
			typ := []string{"Point", "MultiPoint", "LineString", "MultiLineString", "Polygon", "MultiPolygon", "GeometryCollection", "", "Polygon "}[t.Choose(9, "val-type")]
			gv = &geojson.Geometry{Type: typ, Coordinates: r.valueTree(0)}
			desc = typ + " " + describe(gv.Coordinates, 0)
		}
		r.note("value:shaped-coordinates", true, uint64(core.NewHasher().Str("val").Str(desc)))
		var g geom.Geom
		var err error
		var p bool
		var v interface{}
		var st string
		used := meter(func() { p, v, st = core.Protect(func() { g, err = geojson.FromGeoJSON(gv) }) })
		r.log.Eventf("value %s ok=%v", trunc(desc), err == nil)
		if p {
			r.fail("panic", "geojson.FromGeoJSON", "FromGeoJSON panicked on %s: %v %s", trunc(desc), v, core.TrimStack(st, 4))
			return
		}
		if used > allowance {
			r.fail("alloc-unbounded", "geojson.FromGeoJSON", "FromGeoJSON allocated %d bytes for %s", used, trunc(desc))
			return
		}
		r.afterJSON("geojson.FromGeoJSON", "shaped-coordinates", trunc(desc), g, err)
	}
	r.res.States = []uint64{uint64(core.NewHasher().Str("values").U64(r.log.Hash()))}
}

// ---------- adversarial frames and random strings ----------

func (r *run) adversarial() {
	t := r.t
	var b []byte
	switch t.Choose(4, "adv-kind") {
	case 0: // collection nesting up to the 64 KiB bound
		levels := 1 + t.Choose(7281, "adv-levels")
		le := t.Bool("adv-order")
		for i := 0; i < levels; i++ {
			ob := byte(0)
			if le {
				ob = 1
			}
			b = append(b, ob, 0, 0, 0, 0, 0, 0, 0, 0)
			put32(b, len(b)-8, 7, le)
			put32(b, len(b)-4, 1, le)
		}
		if t.Bool("adv-close") {
			// innermost: an empty collection
			put32(b, len(b)-4, 0, le)
		}
	case 1: // every nested count claims 2^32-1
		levels := 1 + t.Choose(2000, "adv-levels")
		code := []uint32{7, 6, 5, 4, 3}[t.Choose(5, "adv-code")]
		claim := []uint32{1 << 20, 1 << 22, 1 << 24, 0xffffffff}[t.Choose(4, "adv-claim")]
		for i := 0; i < levels; i++ {
			b = append(b, 1, 0, 0, 0, 0, 0, 0, 0, 0)
			put32(b, len(b)-8, code, true)
			put32(b, len(b)-4, claim, true)
			if code != 7 {
				code = []uint32{0, 0, 0, 2, 1, 2, 3, 7}[code] // a legal child type
				if code == 0 {
					break
				}
			}
		}
	case 2: // multi-geometry whose children have the wrong type
		parent := []uint32{4, 5, 6}[t.Choose(3, "adv-parent")]
		child := uint32(1 + t.Choose(7, "adv-child"))
		b = append(b, 1, 0, 0, 0, 0, 0, 0, 0, 0)
		put32(b, 1, parent, true)
		put32(b, 5, 2, true)
		for i := 0; i < 2; i++ {
			b = append(b, 1, 0, 0, 0, 0)
			put32(b, len(b)-4, child, true)
			switch child {
			case 1:
				b = append(b, make([]byte, 16)...)
			default:
				b = append(b, 0, 0, 0, 0)
			}
		}
	default: // polygon with many rings each claiming many points, payload missing
		b = append(b, 1, 3, 0, 0, 0, 0, 0, 0, 0)
		put32(b, 5, uint32(1+t.Choose(5000, "adv-rings")), true)
		n := t.Choose(3000, "adv-ring-hdrs")
		for i := 0; i < n; i++ {
			b = append(b, 0, 0, 0, 0)
			put32(b, len(b)-4, []uint32{0, 1 << 12, 1 << 20, 1 << 28}[t.Choose(4, "adv-ring-claim")], true)
			if len(b) > 65000 {
				break
			}
		}
	}
	if len(b) > 65536 {
		b = b[:65536]
	}
	r.log.Eventf("item adversarial %d bytes", len(b))
	r.res.States = []uint64{uint64(core.NewHasher().Str(string(b)))}
	r.wkbBytes("adversarial-frame", b, nil)
	for i := 0; i < 16 && r.res.Viol == nil && len(b) > 0; i++ {
		r.wkbBytes("adversarial-frame+truncate", b[:t.Choose(len(b), "adv-trunc")], nil)
	}
	if r.res.Viol == nil && len(b) <= 32768 {
		s := stdhex.EncodeToString(b)
		r.note("hex:adversarial-frame", true, uint64(core.NewHasher().Str("hexadv").Str(s)))
		var g geom.Geom
		var err error
		var p bool
		var v interface{}
		var st string
		used := meter(func() { p, v, st = core.Protect(func() { g, err = hex.Decode(s) }) })
		if p {
			r.fail("panic", "hex.Decode,adversarial-frame", "hex.Decode panicked on an adversarial frame of %d chars: %v %s", len(s), v, core.TrimStack(st, 4))
		} else if used > budget(len(s)) {
			r.fail("alloc-unbounded", "hex.Decode,adversarial-frame", "hex.Decode allocated %d bytes for a %d-char input", used, len(s))
		} else {
			r.after("hex.Decode", "adversarial-frame", b, g, err)
		}
	}
}

// hexString runs hex.Decode on an arbitrary string under the panic,
// allocation and result-shape oracles.
func (r *run) hexString(kind, in string) {
	if r.res.Viol != nil || len(in) > 65536 {
		return
	}
	r.note("hex:"+kind, true, uint64(core.NewHasher().Str("hexs").Str(in)))
	var g geom.Geom
	var err error
	var p bool
	var v interface{}
	var st string
	used := meter(func() { p, v, st = core.Protect(func() { g, err = hex.Decode(in) }) })
	r.log.EventInts("hexs."+kind, int64(len(in)), b2i(err == nil))
	if p {
		r.fail("panic", "hex.Decode,"+kind, "hex.Decode panicked on %q: %v %s", trunc(in), v, core.TrimStack(st, 4))
		return
	}
	if used > budget(len(in)) {
		r.fail("alloc-unbounded", "hex.Decode,"+kind, "hex.Decode allocated %d bytes for a %d-char input %q", used, len(in), trunc(in))
		return
	}
	r.after("hex.Decode", kind, []byte(in), g, err)
}

// skewedJSON builds syntactically valid GeoJSON documents close to the size
// bound whose coordinates have skewed shapes (one long member and many empty
// ones, long flat lists, deep singletons): shapes on which a decoder that
// sizes buffers from a product or from the first member over-allocates.
func (r *run) skewedJSON() {
	t := r.t
	r.log.Event("item skewed json documents")
	num := func(k int) string {
		b := make([]byte, 0, 2*k+2)
		b = append(b, '[')
		for i := 0; i < k; i++ {
			if i > 0 {
				b = append(b, ',')
			}
			b = append(b, '1')
		}
		return string(append(b, ']'))
	}
	rep := func(elem string, m int) string {
		b := make([]byte, 0, (len(elem)+1)*m)
		for i := 0; i < m; i++ {
			if i > 0 {
				b = append(b, ',')
			}
			b = append(b, elem...)
		}
		return string(b)
	}
	for i := 0; i < 8 && r.res.Viol == nil; i++ {
		typ := []string{"Point", "MultiPoint", "LineString", "MultiLineString", "Polygon", "MultiPolygon"}[t.Choose(6, "skew-type")]
		k := 1 + t.Choose(6000, "skew-k")
		m := 1 + t.Choose(6000, "skew-m")
		wrap := t.Choose(3, "skew-wrap")
		var coords string
		switch t.Choose(14, "skew-shape") {
		case 0: // one long position then many empty ones
			coords = "[" + num(k) + "," + rep("[]", m) + "]"
		case 1: // many empty ones then a long one
			coords = "[" + rep("[]", m) + "," + num(k) + "]"
		case 2: // a valid position first, then many long/empty
			coords = "[[1,2]," + rep("[]", m) + "," + num(k) + "]"
		case 3: // long flat list
			coords = num(k + m)
		case 4: // many valid positions
			coords = "[" + rep("[1,2]", k) + "]"
		case 5: // many one-element members
			coords = "[" + rep("[[1,2]]", m) + "]"
		case 6: // long first ring of long positions
			kk := 1 + k/50
			coords = "[" + rep(num(kk), 1+m/50) + "]"
		case 7: // a first member with many positions, then many empty members
			coords = "[[" + rep("[1,2]", k) + "]," + rep("[]", m) + "]"
		case 8: // a first member with many positions, then many one-position members
			coords = "[[" + rep("[1,2]", k) + "]," + rep("[[3,4]]", m/3+1) + "]"
		case 9: // many one-position members, then one with many positions
			coords = "[" + rep("[[3,4]]", m/3+1) + ",[" + rep("[1,2]", k) + "]]"
		default: // many well-formed members and a single malformed one somewhere
			member := []string{"[1,2]", "[[1,2],[3,4]]", "[[[1,2],[3,4],[5,6],[1,2]]]"}[t.Choose(3, "skew-member")]
			bad := []string{"[0.5]", "[[1,2],[3]]", "[[[1,2],[3,4,5]]]", "null", "\"x\"", "[[]]", "{}"}[t.Choose(7, "skew-bad")]
			n := 2 + t.Choose(1500, "skew-members")
			at := t.Choose(n, "skew-bad-at")
			parts := make([]string, n)
			for j := range parts {
				parts[j] = member
			}
			parts[at] = bad
			coords = "[" + strings.Join(parts, ",") + "]"
		}
		for w := 0; w < wrap; w++ {
			coords = "[" + coords + "]"
		}
		doc := `{"type":"` + typ + `","coordinates":` + coords + `}`
		if len(doc) > 65536 {
			continue
		}
		r.jsonDecode("skewed-shape", []byte(doc), nil)
	}
	// deep singleton nesting
	if r.res.Viol == nil {
		d := 1 + t.Choose(12000, "skew-depth")
		b := bytes.Repeat([]byte{'['}, d)
		b = append(b, '1')
		b = append(b, bytes.Repeat([]byte{']'}, d)...)
		doc := `{"type":"MultiPolygon","coordinates":` + string(b) + `}`
		if len(doc) <= 65536 {
			r.jsonDecode("skewed-shape", []byte(doc), nil)
		}
	}
	r.res.States = []uint64{uint64(core.NewHasher().Str("skewed").U64(r.log.Hash()))}
}

func (r *run) randomBytes() {
	t := r.t
	r.log.Event("item random byte strings")
	for i := 0; i < 40 && r.res.Viol == nil; i++ {
		n := t.Choose(64, "rand-len")
		if t.OneIn(10, "rand-long") {
			n = t.Choose(65537, "rand-len-long")
		}
		b := make([]byte, n)
		for j := 0; j < n; j += 8 {
			v := t.Bits("rand-bytes")
			for k := 0; k < 8 && j+k < n; k++ {
				b[j+k] = byte(v >> (8 * uint(k)))
			}
		}
		if n > 5 && t.Bool("rand-plausible-header") {
			b[0] = byte(t.Choose(2, "rand-order"))
			put32(b, 1, uint32(1+t.Choose(7, "rand-type")), b[0] == 1)
		}
		r.wkbBytes("random-bytes", b, nil)
		if r.res.Viol == nil && n <= 4096 {
			r.jsonDecode("random-bytes", b, nil)
		}
		if r.res.Viol == nil && n <= 4096 {
			r.hexString("random-bytes", string(b))
			r.hexString("random-bytes", stdhex.EncodeToString(b))
		}
	}
	r.res.States = []uint64{uint64(core.NewHasher().Str("random").U64(r.log.Hash()))}
}
