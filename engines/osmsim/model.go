package osmsim

import (
	"fmt"
	"sort"
	"strings"
)

// The document model and the sequential reference: the least set S with
// keep_S(o) => o in S and o in S => refs(o) ∩ doc ⊆ S.

type tag struct{ k, v string }

type mNode struct {
	id       int64
	lat, lon float64
	tags     []tag
}

type mWay struct {
	id    int64
	nodes []int64
	tags  []tag
}

type member struct {
	typ string // node | way | relation
	ref int64
}

type mRel struct {
	id      int64
	members []member
	tags    []tag
}

type elem struct {
	kind string // node | way | relation | bounds
	idx  int
}

type doc struct {
	nodes []mNode
	ways  []mWay
	rels  []mRel
	order []elem
}

type keepSpec struct {
	kind string // tags | bounds | all
	tags map[string][]string
	// bounds: closed box
	minX, minY, maxX, maxY float64
}

func (k keepSpec) String() string {
	switch k.kind {
	case "tags":
		keys := []string{}
		for key := range k.tags {
			keys = append(keys, key)
		}
		sort.Strings(keys)
		parts := []string{}
		for _, key := range keys {
			parts = append(parts, fmt.Sprintf("%s=%v", key, k.tags[key]))
		}
		return "KeepTags{" + strings.Join(parts, " ") + "}"
	case "bounds":
		return fmt.Sprintf("KeepBounds[%g,%g,%g,%g]", k.minX, k.minY, k.maxX, k.maxY)
	}
	return "KeepAll"
}

func hasTagModel(tags []tag, want map[string][]string) bool {
	for _, t := range tags {
		vals, ok := want[t.k]
		if !ok {
			continue
		}
		if len(vals) == 0 {
			return true
		}
		for _, v := range vals {
			if v == t.v {
				return true
			}
		}
	}
	return false
}

type idSet map[int64]bool

type result struct {
	nodes, ways, rels idSet
}

func (r result) size() int { return len(r.nodes) + len(r.ways) + len(r.rels) }

// closure computes the least fixpoint by naive iteration.
func closure(d *doc, k keepSpec) result {
	S := result{idSet{}, idSet{}, idSet{}}
	need := result{idSet{}, idSet{}, idSet{}}
	nodeByID := map[int64]*mNode{}
	for i := range d.nodes {
		nodeByID[d.nodes[i].id] = &d.nodes[i]
	}
	for changed := true; changed; {
		changed = false
		for i := range d.nodes {
			n := &d.nodes[i]
			if S.nodes[n.id] {
				continue
			}
			sel := false
			switch k.kind {
			case "all":
				sel = true
			case "tags":
				sel = hasTagModel(n.tags, k.tags)
			case "bounds":
				sel = n.lon >= k.minX && n.lon <= k.maxX && n.lat >= k.minY && n.lat <= k.maxY
			}
			if sel || need.nodes[n.id] {
				S.nodes[n.id] = true
				changed = true
			}
		}
		for i := range d.ways {
			w := &d.ways[i]
			if S.ways[w.id] {
				continue
			}
			sel := false
			switch k.kind {
			case "all":
				sel = true
			case "tags":
				sel = hasTagModel(w.tags, k.tags)
			case "bounds":
				for _, n := range w.nodes {
					if S.nodes[n] {
						sel = true
					}
				}
			}
			if sel || need.ways[w.id] {
				S.ways[w.id] = true
				for _, n := range w.nodes {
					need.nodes[n] = true
				}
				changed = true
			}
		}
		for i := range d.rels {
			r := &d.rels[i]
			if S.rels[r.id] {
				continue
			}
			sel := false
			switch k.kind {
			case "all":
				sel = true
			case "tags":
				sel = hasTagModel(r.tags, k.tags)
			case "bounds":
				for _, m := range r.members {
					switch m.typ {
					case "node":
						sel = sel || S.nodes[m.ref]
					case "way":
						sel = sel || S.ways[m.ref]
					case "relation":
						sel = sel || S.rels[m.ref]
					}
				}
			}
			if sel || need.rels[r.id] {
				S.rels[r.id] = true
				for _, m := range r.members {
					switch m.typ {
					case "node":
						need.nodes[m.ref] = true
					case "way":
						need.ways[m.ref] = true
					case "relation":
						need.rels[m.ref] = true
					}
				}
				changed = true
			}
		}
	}
	return S
}

// dangling reports whether some object of S references an object absent from d.
func dangling(d *doc, S result) bool {
	nodes, ways, rels := idSet{}, idSet{}, idSet{}
	for _, n := range d.nodes {
		nodes[n.id] = true
	}
	for _, w := range d.ways {
		ways[w.id] = true
	}
	for _, r := range d.rels {
		rels[r.id] = true
	}
	for _, w := range d.ways {
		if !S.ways[w.id] {
			continue
		}
		for _, n := range w.nodes {
			if !nodes[n] {
				return true
			}
		}
	}
	for _, r := range d.rels {
		if !S.rels[r.id] {
			continue
		}
		for _, m := range r.members {
			switch m.typ {
			case "node":
				if !nodes[m.ref] {
					return true
				}
			case "way":
				if !ways[m.ref] {
					return true
				}
			case "relation":
				if !rels[m.ref] {
					return true
				}
			}
		}
	}
	return false
}

// sub restricts a document to a result set (used as the input of Filter).
func sub(d *doc, S result, keepTags bool) *doc {
	o := &doc{}
	for _, n := range d.nodes {
		if S.nodes[n.id] {
			if !keepTags {
				n.tags = nil
			}
			o.nodes = append(o.nodes, n)
		}
	}
	for _, w := range d.ways {
		if S.ways[w.id] {
			if !keepTags {
				w.tags = nil
			}
			o.ways = append(o.ways, w)
		}
	}
	for _, r := range d.rels {
		if S.rels[r.id] {
			if !keepTags {
				r.tags = nil
			}
			o.rels = append(o.rels, r)
		}
	}
	return o
}

func xmlEscape(s string) string { return s } // the tag alphabet needs no escaping

func (d *doc) xml(withBounds bool) []byte {
	var b strings.Builder
	b.WriteString("<?xml version=\"1.0\" encoding=\"UTF-8\"?>\n<osm version=\"0.6\" generator=\"verif\">\n")
	if withBounds {
		b.WriteString(" <bounds minlat=\"0\" minlon=\"0\" maxlat=\"4\" maxlon=\"4\"/>\n")
	}
	tags := func(ts []tag) {
		for _, t := range ts {
			fmt.Fprintf(&b, "<tag k=\"%s\" v=\"%s\"/>", xmlEscape(t.k), xmlEscape(t.v))
		}
	}
	for _, e := range d.order {
		switch e.kind {
		case "node":
			n := d.nodes[e.idx]
			fmt.Fprintf(&b, " <node id=\"%d\" lat=\"%g\" lon=\"%g\">", n.id, n.lat, n.lon)
			tags(n.tags)
			b.WriteString("</node>\n")
		case "way":
			w := d.ways[e.idx]
			fmt.Fprintf(&b, " <way id=\"%d\">", w.id)
			for _, n := range w.nodes {
				fmt.Fprintf(&b, "<nd ref=\"%d\"/>", n)
			}
			tags(w.tags)
			b.WriteString("</way>\n")
		case "relation":
			r := d.rels[e.idx]
			fmt.Fprintf(&b, " <relation id=\"%d\">", r.id)
			for _, m := range r.members {
				fmt.Fprintf(&b, "<member type=\"%s\" ref=\"%d\" role=\"\"/>", m.typ, m.ref)
			}
			tags(r.tags)
			b.WriteString("</relation>\n")
		}
	}
	b.WriteString("</osm>\n")
	return []byte(b.String())
}

func (d *doc) describe() []string {
	var out []string
	for _, e := range d.order {
		switch e.kind {
		case "node":
			n := d.nodes[e.idx]
			out = append(out, fmt.Sprintf("node %d (lon %g, lat %g) %v", n.id, n.lon, n.lat, n.tags))
		case "way":
			w := d.ways[e.idx]
			out = append(out, fmt.Sprintf("way %d nodes%v %v", w.id, w.nodes, w.tags))
		case "relation":
			r := d.rels[e.idx]
			out = append(out, fmt.Sprintf("relation %d members%v %v", r.id, r.members, r.tags))
		}
	}
	return out
}
