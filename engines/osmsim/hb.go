package osmsim

import (
	"fmt"
	"reflect"
	"strings"
	"sync"

	"github.com/paulmach/osm"
)

// Happens-before tracking (vector clocks) over the synchronisation operations
// the scheduler is told about: spawn, join, lock release -> next acquisition,
// channel send -> receive, close -> receive-of-closed. Two accesses to the
// same variable (a map-typed struct field, announced by the build step's
// simAccess) of which at least one is a write and which no such edge orders
// are a data race — also under a simulation that runs one goroutine at a
// time, where neither the race detector nor the Go runtime's concurrent-map
// check can ever fire. The detector only reports what the program's own
// synchronisation fails to order; whenever its picture of the locks is not
// certain (a release it was not told about, a Locker it does not know, a
// synchronisation construct the build step could not cover) it switches
// itself off for the run instead of guessing.

type vclock []uint32

func (v vclock) get(i int) uint32 {
	if i < len(v) {
		return v[i]
	}
	return 0
}

func (v *vclock) set(i int, x uint32) {
	for len(*v) <= i {
		*v = append(*v, 0)
	}
	(*v)[i] = x
}

func (v *vclock) join(o vclock) {
	for i, x := range o {
		if x > v.get(i) {
			v.set(i, x)
		}
	}
}

func (v vclock) clone() vclock { return append(vclock{}, v...) }

type lockState struct {
	relW, relR vclock
	writer     int // task id, -1 = none
	readers    map[int]int
}

type access struct {
	tid   int
	epoch uint32
	site  string
}

type location struct {
	keep  interface{} // keeps the variable alive: its address is the key
	w     *access
	reads map[int]access
}

type hb struct {
	mu       sync.Mutex
	off      string
	vc       map[int]*vclock
	locks    map[interface{}]*lockState
	chans    map[chan osm.Object][]vclock
	closeVC  map[chan osm.Object]vclock
	spawnVC  vclock
	exitVC   vclock
	locs     map[uintptr]*location
	race     string
	raceWhat string
	accesses int64
}

func newHB(fillInfo string) *hb {
	h := &hb{vc: map[int]*vclock{}, locks: map[interface{}]*lockState{}, chans: map[chan osm.Object][]vclock{},
		closeVC: map[chan osm.Object]vclock{}, locs: map[uintptr]*location{}}
	if fillInfo != "" {
		h.off = fillInfo
	}
	return h
}

func (h *hb) clock(tid int) *vclock {
	c, ok := h.vc[tid]
	if !ok {
		c = &vclock{}
		c.set(tid, 1)
		h.vc[tid] = c
	}
	return c
}

func (h *hb) tick(tid int) {
	c := h.clock(tid)
	c.set(tid, c.get(tid)+1)
}

func (h *hb) spawn(tid int) {
	h.mu.Lock()
	defer h.mu.Unlock()
	h.spawnVC = h.clock(tid).clone()
	h.tick(tid)
}

func (h *hb) enter(tid int) {
	h.mu.Lock()
	defer h.mu.Unlock()
	c := h.clock(tid)
	c.join(h.spawnVC)
}

func (h *hb) exit(tid int) {
	h.mu.Lock()
	defer h.mu.Unlock()
	h.exitVC.join(*h.clock(tid))
}

func (h *hb) joined(tid int) {
	h.mu.Lock()
	defer h.mu.Unlock()
	h.clock(tid).join(h.exitVC)
}

func lockKey(p interface{}) (interface{}, bool) {
	switch m := p.(type) {
	case *sync.RWMutex:
		return m, true
	case **sync.RWMutex:
		return *m, true
	case *sync.Mutex:
		return m, true
	case **sync.Mutex:
		return *m, true
	}
	return nil, false
}

func (h *hb) lock(key interface{}) *lockState {
	ls, ok := h.locks[key]
	if !ok {
		ls = &lockState{writer: -1, readers: map[int]int{}}
		h.locks[key] = ls
	}
	return ls
}

func (h *hb) acquired(tid int, key interface{}, write bool) {
	h.mu.Lock()
	defer h.mu.Unlock()
	if h.off != "" {
		return
	}
	ls := h.lock(key)
	c := h.clock(tid)
	if write {
		if ls.writer != -1 || len(ls.readers) > 0 {
			h.off = "a lock was acquired while the model still saw it held: a release was not announced"
			return
		}
		c.join(ls.relW)
		c.join(ls.relR)
		ls.writer = tid
		return
	}
	if ls.writer != -1 {
		h.off = "a read lock was acquired while the model still saw a writer: a release was not announced"
		return
	}
	c.join(ls.relW)
	ls.readers[tid]++
}

func (h *hb) released(tid int, p interface{}, write bool) {
	h.mu.Lock()
	defer h.mu.Unlock()
	if h.off != "" {
		return
	}
	key, ok := lockKey(p)
	if !ok {
		h.off = fmt.Sprintf("release of a lock of unknown type %T", p)
		return
	}
	ls := h.lock(key)
	c := h.clock(tid)
	if write {
		if ls.writer != tid {
			h.off = "a lock was released by a task the model did not see acquire it"
			return
		}
		ls.relW = c.clone()
		ls.writer = -1
	} else {
		if ls.readers[tid] == 0 {
			h.off = "a read lock was released by a task the model did not see acquire it"
			return
		}
		if ls.readers[tid]--; ls.readers[tid] == 0 {
			delete(ls.readers, tid)
		}
		ls.relR.join(*c)
	}
	h.tick(tid)
}

func (h *hb) sent(tid int, ch chan osm.Object) {
	h.mu.Lock()
	defer h.mu.Unlock()
	h.chans[ch] = append(h.chans[ch], h.clock(tid).clone())
	h.tick(tid)
}

func (h *hb) received(tid int, ch chan osm.Object) {
	h.mu.Lock()
	defer h.mu.Unlock()
	if q := h.chans[ch]; len(q) > 0 {
		h.clock(tid).join(q[0])
		h.chans[ch] = q[1:]
		return
	}
	if c, ok := h.closeVC[ch]; ok {
		h.clock(tid).join(c)
	}
}

func (h *hb) closedChan(tid int, ch chan osm.Object) {
	h.mu.Lock()
	defer h.mu.Unlock()
	h.closeVC[ch] = h.clock(tid).clone()
	h.tick(tid)
}

func kind(w bool) string {
	if w {
		return "write"
	}
	return "read"
}

func (h *hb) access(tid int, p interface{}, write bool, site string) {
	h.mu.Lock()
	defer h.mu.Unlock()
	if h.off != "" || h.race != "" {
		return
	}
	// the variable's identity: the map itself for a map (a struct copied by
	// value shares it), the address otherwise
	v := reflect.ValueOf(p)
	var ptr uintptr
	switch v.Kind() {
	case reflect.Map:
		if v.IsNil() {
			return
		}
		ptr = v.Pointer()
	case reflect.Slice:
		// the elements of a slice: keyed by its first element
		if v.Len() == 0 {
			return
		}
		ptr = v.Pointer()
	case reflect.Ptr:
		if v.IsNil() {
			return
		}
		ptr = v.Pointer()
	default:
		return
	}
	h.accesses++
	l, ok := h.locs[ptr]
	if !ok {
		l = &location{keep: p, reads: map[int]access{}}
		h.locs[ptr] = l
	}
	c := h.clock(tid)
	report := func(prev access, prevWrite bool) {
		what := site
		if f := strings.Fields(site); len(f) >= 2 {
			what = f[1]
		}
		if i := strings.LastIndexByte(what, '.'); i >= 0 {
			what = what[i+1:]
		}
		h.raceWhat = fmt.Sprintf("%s,%s-%s", what, kind(prevWrite), kind(write))
		h.race = fmt.Sprintf("%s at %s by task t%d and %s at %s by task t%d are not ordered by any lock, channel operation, spawn or join (happens-before tracking over the announced synchronisation; in a real execution these two accesses can run at the same time)",
			kind(prevWrite), prev.site, prev.tid, kind(write), site, tid)
	}
	if l.w != nil && l.w.tid != tid && l.w.epoch > c.get(l.w.tid) {
		report(*l.w, true)
		return
	}
	if write {
		for u, a := range l.reads {
			if u != tid && a.epoch > c.get(u) {
				// (several unordered readers: report the lowest task id)
				best := a
				for u2, a2 := range l.reads {
					if u2 != tid && a2.epoch > c.get(u2) && a2.tid < best.tid {
						best = a2
					}
				}
				report(best, false)
				return
			}
		}
		l.w = &access{tid: tid, epoch: c.get(tid), site: site}
		l.reads = map[int]access{}
		return
	}
	l.reads[tid] = access{tid: tid, epoch: c.get(tid), site: site}
}
