package osmsim

import "encoding/binary"

// A minimal OSM PBF writer (hand-rolled protobuf, raw blobs, one primitive
// group per element so that any element order can be expressed; nodes are
// written as DenseNodes — the decoder of paulmach/osm supports nothing else).

type pbuf struct{ b []byte }

func (p *pbuf) varint(v uint64) {
	for v >= 0x80 {
		p.b = append(p.b, byte(v)|0x80)
		v >>= 7
	}
	p.b = append(p.b, byte(v))
}

func zigzag(v int64) uint64 { return uint64((v << 1) ^ (v >> 63)) }

func (p *pbuf) key(field int, wire int) { p.varint(uint64(field<<3 | wire)) }

func (p *pbuf) bytesField(field int, b []byte) {
	p.key(field, 2)
	p.varint(uint64(len(b)))
	p.b = append(p.b, b...)
}

func (p *pbuf) intField(field int, v uint64) {
	p.key(field, 0)
	p.varint(v)
}

func packed(vals []uint64) []byte {
	var q pbuf
	for _, v := range vals {
		q.varint(v)
	}
	return q.b
}

// pbfCoord is what the decoder computes for a quarter-degree index q:
// 1e-9 * float64(offset + granularity*value) with granularity 100.
func pbfCoord(q int) float64 {
	return 1e-9 * float64(int64(0)+int64(100)*int64(q)*2500000)
}

type strTable struct {
	idx map[string]int
	s   []string
}

func newStrTable() *strTable { return &strTable{idx: map[string]int{"": 0}, s: []string{""}} }

func (t *strTable) id(s string) uint64 {
	if i, ok := t.idx[s]; ok {
		return uint64(i)
	}
	t.idx[s] = len(t.s)
	t.s = append(t.s, s)
	return uint64(len(t.s) - 1)
}

func fileBlock(typ string, payload []byte) []byte {
	var blob pbuf
	blob.bytesField(1, payload)            // raw
	blob.intField(2, uint64(len(payload))) // raw_size
	var hdr pbuf
	hdr.bytesField(1, []byte(typ))       // type
	hdr.intField(3, uint64(len(blob.b))) // datasize
	out := make([]byte, 4)
	binary.BigEndian.PutUint32(out, uint32(len(hdr.b)))
	out = append(out, hdr.b...)
	return append(out, blob.b...)
}

// pbf serialises the document; qlat/qlon give every node's coordinates as
// quarter-degree indices. blocks > 1 spreads the elements over several
// PrimitiveBlocks.
func (d *doc) pbf(qlat, qlon map[int64]int, blocks int) []byte {
	var hb pbuf
	hb.bytesField(4, []byte("OsmSchema-V0.6"))
	hb.bytesField(4, []byte("DenseNodes"))
	hb.bytesField(16, []byte("verif"))
	out := fileBlock("OSMHeader", hb.b)
	if blocks < 1 {
		blocks = 1
	}
	per := (len(d.order) + blocks - 1) / blocks
	if per == 0 {
		per = 1
	}
	for start := 0; start < len(d.order) || start == 0; start += per {
		end := start + per
		if end > len(d.order) {
			end = len(d.order)
		}
		st := newStrTable()
		var groups [][]byte
		for _, e := range d.order[start:end] {
			var g pbuf
			switch e.kind {
			case "node":
				n := d.nodes[e.idx]
				var dn pbuf
				dn.bytesField(1, packed([]uint64{zigzag(n.id)}))
				dn.bytesField(8, packed([]uint64{zigzag(int64(qlat[n.id]) * 2500000)}))
				dn.bytesField(9, packed([]uint64{zigzag(int64(qlon[n.id]) * 2500000)}))
				var kv []uint64
				for _, t := range n.tags {
					kv = append(kv, st.id(t.k), st.id(t.v))
				}
				kv = append(kv, 0)
				dn.bytesField(10, packed(kv))
				g.bytesField(2, dn.b)
			case "way":
				w := d.ways[e.idx]
				var wb pbuf
				wb.intField(1, uint64(w.id))
				var ks, vs []uint64
				for _, t := range w.tags {
					ks, vs = append(ks, st.id(t.k)), append(vs, st.id(t.v))
				}
				if len(ks) > 0 {
					wb.bytesField(2, packed(ks))
					wb.bytesField(3, packed(vs))
				}
				var refs []uint64
				prev := int64(0)
				for _, r := range w.nodes {
					refs = append(refs, zigzag(r-prev))
					prev = r
				}
				if len(refs) > 0 {
					wb.bytesField(8, packed(refs))
				}
				g.bytesField(3, wb.b)
			case "relation":
				r := d.rels[e.idx]
				var rb pbuf
				rb.intField(1, uint64(r.id))
				var ks, vs []uint64
				for _, t := range r.tags {
					ks, vs = append(ks, st.id(t.k)), append(vs, st.id(t.v))
				}
				if len(ks) > 0 {
					rb.bytesField(2, packed(ks))
					rb.bytesField(3, packed(vs))
				}
				var roles, mem, typ []uint64
				prev := int64(0)
				for _, m := range r.members {
					roles = append(roles, 0)
					mem = append(mem, zigzag(m.ref-prev))
					prev = m.ref
					typ = append(typ, map[string]uint64{"node": 0, "way": 1, "relation": 2}[m.typ])
				}
				if len(mem) > 0 {
					rb.bytesField(8, packed(roles))
					rb.bytesField(9, packed(mem))
					rb.bytesField(10, packed(typ))
				}
				g.bytesField(4, rb.b)
			default:
				continue
			}
			groups = append(groups, g.b)
		}
		var stb pbuf
		for _, s := range st.s {
			stb.bytesField(1, []byte(s))
		}
		var pb pbuf
		pb.bytesField(1, stb.b)
		for _, g := range groups {
			pb.bytesField(2, g)
		}
		out = append(out, fileBlock("OSMData", pb.b)...)
		if len(d.order) == 0 {
			break
		}
	}
	return out
}
