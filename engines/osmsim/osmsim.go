// Package osmsim checks property C18 by running the real osm.ExtractXML —
// worker pool, channel, RWMutex-guarded maps, pass loop, osmxml scanner — under
// a token-passing scheduler that decides every interleaving from the tape,
// over a simulated file that can deliver short reads, fail a read or a seek,
// and with cancellation at a tape-chosen scheduler step. Oracle: the
// sequential least-fixpoint model in model.go.
package osmsim

import (
	"context"
	"errors"
	"fmt"
	"io"
	"math"
	"os"
	"sort"
	"sync"

	"github.com/ctessum/geom"
	gosm "github.com/ctessum/geom/encoding/osm"
	"github.com/paulmach/osm"

	"verif/sim/core"
	"verif/sim/sched"
	"verif/sim/tape"
)

func init() {
	core.Register("C18", func() core.Engine { return &engine{} })
}

type engine struct{}

// forceCanonical (env VERIF_OSM_CANONICAL, sensitivity experiments only) keeps
// every document in canonical element order, so that only schedule-dependent
// failures remain.
var forceCanonical = os.Getenv("VERIF_OSM_CANONICAL") != ""

// forceStrategy (env VERIF_OSM_STRATEGY, sensitivity experiments only) pins the
// scheduling strategy.
var forceStrategy = os.Getenv("VERIF_OSM_STRATEGY")

func (e *engine) Info() core.Info {
	return core.Info{
		Prop:  "C18",
		Level: "exploration",
		Rule:  "a case is one seeded execution of ExtractXML: an OSM document of <=41 elements (0-12 nodes on a quarter-integer grid, 0-8 ways sharing nodes incl. closed ways, dangling refs and (one way in ten) ways without any node, 0-5 relations with node/way/relation members incl. forward references, cycles and self-reference; tags from a 3x2 alphabet (one run in four: keys and values containing the character = and prefixes of one another); canonical or shuffled element order), a keep function (KeepTags with several maps, KeepBounds with a box straddling the grid, KeepAll), keepTags on/off, 1-8 workers, a scheduling strategy (round-robin, uniform, sticky, PCT priorities, long worker stalls, starve-one) deciding every interleaving at every lock/channel/spawn/join point, and XML or (1 in 25) PBF encoding, a reader/fault class (full reads; legal short and (0,nil) reads; I/O error at byte k of pass p; failing Seek; cancellation at scheduler step k); non-trivial = >=2 workers AND the model keeps at least one way or relation; distinct = distinct hash of (document, keep, schedule, faults) = the full event log",
		Real:  []string{"osm.ExtractXML / extract (pass loop, worker pool, channel, all mutex-guarded maps, processNode/Way/Relation, hasNeed*)", "osm.ExtractPBF over the same documents written by an independent PBF writer (one run in 25; paulmach/osm osmpbf decoder incl. its own, unsimulated, decoder goroutines)", "KeepTags / KeepBounds / KeepAll", "(*Data).Check, (*Data).Filter", "paulmach/osm osmxml.Scanner and encoding/xml", "golang.org/x/sync/errgroup", "real goroutines, real sync.RWMutex/Mutex and channel (only the choice of who runs is simulated)"},
		Stubs: []string{"the io.ReadSeeker (simulated file: chunking, (0,nil) reads, injected read error, failing Seek, pass counting)", "the context (cancelled by the scheduler at a tape-chosen step)", "the worker count (tape-chosen 1-8 instead of GOMAXPROCS)", "the Go scheduler's choice of which goroutine runs next (token passing at the verif hooks)"},
		FaultKinds: []string{
			"reader-short-reads (legal)", "reader-eof-with-data (legal: last bytes returned together with io.EOF)", "reader-zero-read (legal (0,nil), injected singly)", "reader-io-error at byte k of pass p", "seek-failure at pass p", "cancellation at scheduler step k", "worker-stall (a ready worker frozen for tens to thousands of steps)", "worker-starved",
		},
		StateMeasure:  "distinct (document, keep function) pairs among successful runs (each has one model result)",
		SchedMeasure:  "distinct interleavings = distinct hashes of the sequence of tasks chosen at every scheduling decision",
		TimeStatement: "no clock or timer exists in extract; simulated time = scheduler steps (one per intercepted lock acquisition, channel operation, spawn, join)",
		Assumptions: []string{
			"for code whose shared accesses are all lock-protected, yielding before every lock acquisition and channel operation explores every distinguishable interleaving class; one run in six additionally switches tasks between any two statements (yield points inserted by tools/hookfill at build time)",
			"unprotected accesses: every read/write of a map-typed struct field of the package is announced (tools/hookfill) and checked against the happens-before order of the announced synchronisation (vector clocks: spawn, join, lock release->acquire, send->receive, close); a pair of accesses with a write that nothing orders is reported as data-race. Not covered: shared variables other than map-typed struct fields (captured locals, slices, scalars), accesses inside statements that also call something that may synchronise, and code using sync/atomic, sync.Once/Map/Cond/WaitGroup, select or extra goroutines (the tracker switches itself off for such a tree and says so in a probe)",
			"osmxml.Scanner and encoding/xml are synchronous (no goroutines of their own); osmpbf's decoder goroutines are NOT simulated: they never touch a hook, their output order is deterministic and the main task waits for them while holding the token, so PBF runs replay exactly as long as no read error or cancellation is injected — PBF runs therefore use only the fault-free and legal-reader classes",
			"Filter's own map iteration order is not behind a seam (the hooks are add-only); for correct code its result is order-independent; it is evaluated 4 times per run (64 times in a replay)",
			"under an injected fault the only accepted outcomes are an error (whatever accompanies it) or (data equal to the model, nil)",
		},
		QuickRuns: 400000, ThoroughRuns: 12000000, TokenScheduled: true, QuickWallS: 75, ThoroughWallS: 1500,
	}
}

// ---------- simulator-side runtime handed to the osm hooks ----------

type rt struct {
	s      *sched.S
	nprocs int
	closed map[chan osm.Object]bool
	// pending counts writers that have called Lock() on a mutex and not yet
	// acquired it
	pending map[*sync.RWMutex]int
	// fine: statement-level yield points are live in this run
	fine bool
	// spawning: the main task has announced workers and not yet reached its
	// next announced operation
	spawning bool
	// hb: happens-before tracking (see hb.go)
	hb *hb
}

func (r *rt) cur() int { return r.s.Cur().ID() }

func (r *rt) NProcs(int) int { return r.nprocs }
func (r *rt) Spawn(n int) {
	r.spawning = true
	if r.s.Aborted == "" {
		r.hb.spawn(r.cur())
	}
	r.s.Spawn(n)
}
func (r *rt) Enter() {
	r.s.Enter()
	if r.s.Aborted == "" {
		r.hb.enter(r.cur())
	}
}
func (r *rt) Exit() {
	if r.s.Aborted == "" {
		r.hb.exit(r.cur())
	}
	r.s.Exit()
}
func (r *rt) Join() {
	r.spawning = false
	r.s.Yield("join", r.s.WorkersDone)
	if r.s.Aborted == "" {
		r.hb.joined(r.cur())
	}
}

// Release and Access implement osm.SimTracer (announcements inserted by
// tools/hookfill).
func (r *rt) Release(p interface{}, write bool) {
	if r.s.Aborted == "" {
		r.hb.released(r.cur(), p, write)
	}
}

func (r *rt) Access(p interface{}, write bool, site string) {
	if r.s.Aborted == "" {
		r.hb.access(r.cur(), p, write, site)
	}
}

// BeforeRW models sync.RWMutex including its writer preference: a writer that
// has CALLED Lock() blocks every later RLock() until it has acquired and
// released the mutex. Because a simulated writer waits in the hook, not inside
// the real Lock(), the real mutex never sees a pending writer; the pending
// state is therefore kept here. The call to Lock() is a scheduling point of
// its own ("lock-call"), so both orders of a racing RLock()/Lock() pair are
// explored. Without this, lock-order inversions between read locks — harmless
// for plain reader/writer locks, fatal with writer preference — could not
// deadlock in simulation although they do in reality.
func (r *rt) BeforeRW(mx *sync.RWMutex, write bool) {
	if write {
		r.s.Yield("lock-call", nil)
		r.pending[mx]++
		r.s.Yield("lock", func() bool {
			if mx.TryLock() {
				mx.Unlock()
				return true
			}
			return false
		})
		r.pending[mx]--
		if r.s.Aborted == "" {
			r.hb.acquired(r.cur(), mx, true)
		}
		return
	}
	r.s.Yield("rlock", func() bool {
		if r.pending[mx] > 0 {
			return false
		}
		if mx.TryRLock() {
			mx.RUnlock()
			return true
		}
		return false
	})
	if r.s.Aborted == "" {
		r.hb.acquired(r.cur(), mx, false)
	}
}

// BeforeLockAny is the generic announcement inserted by tools/hookfill before
// lock calls that carry no typed hook.
func (r *rt) BeforeLockAny(p interface{}, write bool) {
	switch m := p.(type) {
	case *sync.RWMutex:
		r.BeforeRW(m, write)
	case **sync.RWMutex:
		r.BeforeRW(*m, write)
	case *sync.Mutex:
		r.BeforeMutex(m)
	case **sync.Mutex:
		r.BeforeMutex(*m)
	default:
		// some other Locker: a scheduling point without a readiness predicate
		r.s.Yield("lock-any", nil)
		r.hb.mu.Lock()
		if r.hb.off == "" {
			r.hb.off = fmt.Sprintf("a lock of unknown type %T", p)
		}
		r.hb.mu.Unlock()
	}
}

// Yield is the statement-level scheduling point inserted by tools/hookfill; it
// is live only in fine-grained runs.
func (r *rt) Yield() {
	if !r.fine {
		return
	}
	if r.spawning && r.s.Cur() == r.s.Main() {
		// between the announcement of the workers and the statements that
		// start them nobody else can run yet: a decision here would wait for
		// goroutines that do not exist
		return
	}
	r.s.Yield("stmt", nil)
}

func (r *rt) BeforeMutex(mx *sync.Mutex) {
	r.s.Yield("mutex", func() bool {
		if mx.TryLock() {
			mx.Unlock()
			return true
		}
		return false
	})
	if r.s.Aborted == "" {
		r.hb.acquired(r.cur(), mx, true)
	}
}

func (r *rt) BeforeSend(ch chan osm.Object) {
	r.spawning = false
	r.s.Yield("send", func() bool { return len(ch) < cap(ch) })
	if r.s.Aborted == "" {
		r.hb.sent(r.cur(), ch)
	}
}

func (r *rt) BeforeRecv(ch chan osm.Object) {
	r.s.Yield("recv", func() bool { return len(ch) > 0 || r.closed[ch] })
	if r.s.Aborted == "" {
		r.hb.received(r.cur(), ch)
	}
}

func (r *rt) BeforeClose(ch chan osm.Object) {
	r.spawning = false
	r.s.Yield("close", nil)
	// the token holder closes the channel before its next yield
	r.closed[ch] = true
	if r.s.Aborted == "" {
		r.hb.closedChan(r.cur(), ch)
	}
}

// ---------- simulated file ----------

var errEIO = errors.New("verif: injected read error")
var errSeek = errors.New("verif: injected seek error")

type simFile struct {
	eofData  bool // the last bytes are returned together with io.EOF (legal)
	data     []byte
	pos      int
	pass     int // number of times reading (re)started at offset 0
	counted  bool
	seeks    int // number of Seek calls so far
	chunk    int // 0 = as much as asked
	zeroAt   int // inject one (0,nil) at this Read call number (0 = never)
	reads    int
	eioPass  int // pass in which the read error fires (0 = never)
	eioAt    int // byte offset
	seekFail int // the seekFail-th Seek call fails (0 = never)
	fired    map[string]int
	maxPass  int
}

func (f *simFile) Read(p []byte) (int, error) {
	f.reads++
	if f.pos == 0 && !f.counted {
		f.counted = true
		f.pass++
		if f.pass > f.maxPass {
			f.maxPass = f.pass
		}
	}
	if len(p) == 0 {
		return 0, nil
	}
	if f.zeroAt > 0 && f.reads == f.zeroAt {
		f.fired["reader-zero-read"]++
		return 0, nil
	}
	limit := len(f.data)
	eio := f.eioPass > 0 && f.eioPass == f.pass
	if eio && f.eioAt < limit {
		limit = f.eioAt
	}
	if f.pos >= limit {
		if eio && f.pos >= f.eioAt {
			f.fired["reader-io-error"]++
			return 0, errEIO
		}
		return 0, io.EOF
	}
	n := len(p)
	if f.chunk > 0 && n > f.chunk {
		n = f.chunk
		f.fired["reader-short-reads"]++
	}
	if n > limit-f.pos {
		n = limit - f.pos
	}
	copy(p, f.data[f.pos:f.pos+n])
	f.pos += n
	if f.pos > 0 {
		f.counted = false
	}
	if f.eofData && f.pos == len(f.data) && !eio {
		f.fired["reader-eof-with-data"]++
		return n, io.EOF
	}
	return n, nil
}

// Seek implements io.Seeker in full (an implementation may query its position
// or rewind relative to the end); the seekFail-th call fails.
func (f *simFile) Seek(off int64, whence int) (int64, error) {
	f.seeks++
	if f.seekFail > 0 && f.seeks == f.seekFail {
		f.fired["seek-failure"]++
		return 0, errSeek
	}
	var np int64
	switch whence {
	case io.SeekStart:
		np = off
	case io.SeekCurrent:
		np = int64(f.pos) + off
	case io.SeekEnd:
		np = int64(len(f.data)) + off
	default:
		return 0, fmt.Errorf("verif: invalid whence %d", whence)
	}
	if np < 0 {
		return 0, fmt.Errorf("verif: negative position")
	}
	if int(np) != f.pos {
		f.counted = false
	}
	f.pos = int(np)
	if f.pos > len(f.data) {
		f.pos = len(f.data)
	}
	return np, nil
}

// ---------- the run ----------

type run struct {
	tagKeys, tagVals []string
	nanNode          bool
	qlat, qlon       map[int64]int // node id -> quarter-degree index
	pbf              bool
	t                *tape.Tape
	log              *core.Log
	res              *core.Result
	d                *doc
	ks               keepSpec
	keepTags         bool
	nprocs           int
	strategy         string
	class            int
	trace            bool
}

func (e *engine) Run(t *tape.Tape, trace bool) core.Result {
	res := core.Result{}
	r := &run{t: t, log: core.NewLog(trace), res: &res, trace: trace, qlat: map[int64]int{}, qlon: map[int64]int{}}
	r.exec()
	res.LogHash = r.log.Hash()
	res.Events = r.log.Count()
	res.CaseHash = res.LogHash
	res.Trace = r.log.Lines
	res.Strategy = r.strategy
	return res
}

func (r *run) fail(class, detail, format string, a ...interface{}) {
	if r.res.Viol == nil {
		r.res.Viol = &core.Violation{Class: class, Detail: detail, Msg: fmt.Sprintf(format, a...)}
		r.log.Violation(class, r.res.Viol.Msg)
	}
}

var tagKeys = []string{"a", "b", "c"}
var tagVals = []string{"x", "y"}

// keys and values that collide when glued together with "=" or compared by
// prefix (one run in four draws its alphabet from these)
var oddKeys = []string{"a", "a=x", "a=", "ab", "=a", "a=x=a"}
var oddVals = []string{"x", "=x", "x=a", "a=x", "xa", "a"}

func (r *run) pickAlphabet() {
	r.tagKeys, r.tagVals = tagKeys, tagVals
	if r.t.OneIn(4, "odd-tag-alphabet") {
		r.res.Probe("tag-alphabet-with-=-and-prefixes")
		r.tagKeys, r.tagVals = nil, nil
		o := r.t.Choose(len(oddKeys), "odd-key0")
		for i := 0; i < 3; i++ {
			r.tagKeys = append(r.tagKeys, oddKeys[(o+i*(1+r.t.Choose(2, "odd-key-step")))%len(oddKeys)])
		}
		o = r.t.Choose(len(oddVals), "odd-val0")
		r.tagVals = []string{oddVals[o], oddVals[(o+1+r.t.Choose(len(oddVals)-1, "odd-val1"))%len(oddVals)]}
	}
}

func (r *run) genTags() []tag {
	n := r.t.Choose(3, "ntags")
	var out []tag
	used := map[string]bool{}
	for i := 0; i < n; i++ {
		k := r.tagKeys[r.t.Choose(3, "tagk")]
		if used[k] {
			continue
		}
		used[k] = true
		out = append(out, tag{k, r.tagVals[r.t.Choose(2, "tagv")]})
	}
	return out
}

func (r *run) genDoc() {
	t := r.t
	d := &doc{}
	nN := t.Choose(13, "n-nodes")
	nW := t.Choose(9, "n-ways")
	nR := t.Choose(6, "n-rels")
	chain := t.OneIn(6, "chain-shape") // long dependency chains need many passes
	for i := 0; i < nN; i++ {
		qa, qo := t.Choose(17, "lat"), t.Choose(17, "lon")
		r.qlat[int64(i+1)], r.qlon[int64(i+1)] = qa, qo
		d.nodes = append(d.nodes, mNode{id: int64(i + 1), lat: float64(qa) / 4, lon: float64(qo) / 4, tags: r.genTags()})
	}
	pickNode := func() int64 {
		if nN == 0 || t.OneIn(25, "dangling-node") {
			// absent node ids are small, so that they coincide with ids of
			// existing ways and relations (ids are only unique per type)
			return int64(nN + 1 + t.Choose(3, "dangling-id"))
		}
		return int64(1 + t.Choose(nN, "node-ref"))
	}
	for i := 0; i < nW; i++ {
		w := mWay{id: int64(i + 1), tags: r.genTags()}
		k := 1 + t.Choose(5, "way-len")
		if t.OneIn(10, "empty-way") {
			// a way without any <nd> (redacted or broken ways): legal input,
			// stored only as somebody's dependency and requesting no node
			k = 0
			r.res.Probe("way-without-nodes")
		}
		if chain && nN >= 2 {
			// way i links node i+1 and i+2: with KeepBounds the selection spreads along the chain
			a := int64(1 + i%nN)
			b := int64(1 + (i+1)%nN)
			w.nodes = []int64{a, b}
		} else {
			for j := 0; j < k; j++ {
				w.nodes = append(w.nodes, pickNode())
			}
			if k >= 3 && t.OneIn(3, "closed-way") {
				w.nodes = append(w.nodes, w.nodes[0])
			}
		}
		d.ways = append(d.ways, w)
	}
	for i := 0; i < nR; i++ {
		rl := mRel{id: int64(i + 1), tags: r.genTags()}
		k := t.Choose(5, "rel-len")
		for j := 0; j < k; j++ {
			switch t.Choose(3, "member-type") {
			case 0:
				rl.members = append(rl.members, member{"node", pickNode()})
			case 1:
				ref := int64(1 + t.Choose(nW+1, "way-ref"))
				if int(ref) > nW {
					ref = int64(nW + 1 + t.Choose(3, "dangling-way"))
				}
				rl.members = append(rl.members, member{"way", ref})
			default:
				// any relation id incl. itself and later ones (forward refs, cycles)
				ref := int64(1 + t.Choose(nR+1, "rel-ref"))
				if int(ref) > nR {
					ref = int64(nR + 1 + t.Choose(2, "dangling-rel"))
				}
				if ref == rl.id {
					r.res.Probe("relation-self-reference")
				}
				rl.members = append(rl.members, member{"relation", ref})
			}
		}
		d.rels = append(d.rels, rl)
	}
	for i := range d.nodes {
		d.order = append(d.order, elem{"node", i})
	}
	for i := range d.ways {
		d.order = append(d.order, elem{"way", i})
	}
	for i := range d.rels {
		d.order = append(d.order, elem{"relation", i})
	}
	// id scheme: small ids, ids beyond 2^40 (more than some packed id
	// representations hold), negative ids (used by editors for new objects)
	scheme := t.Choose(8, "id-scheme")
	mapID := func(id int64) int64 {
		switch scheme {
		case 5:
			return id + 1<<41
		case 6:
			return -id
		case 7:
			if id%2 == 1 {
				return -(id + 1<<40)
			}
			return id + 1<<42
		}
		return id
	}
	if scheme >= 5 {
		r.res.Probe("large-or-negative-ids")
		for i := range d.nodes {
			old := d.nodes[i].id
			d.nodes[i].id = mapID(old)
			r.qlat[d.nodes[i].id], r.qlon[d.nodes[i].id] = r.qlat[old], r.qlon[old]
		}
		for i := range d.ways {
			d.ways[i].id = mapID(d.ways[i].id)
			for j := range d.ways[i].nodes {
				d.ways[i].nodes[j] = mapID(d.ways[i].nodes[j])
			}
		}
		for i := range d.rels {
			d.rels[i].id = mapID(d.rels[i].id)
			for j := range d.rels[i].members {
				d.rels[i].members[j].ref = mapID(d.rels[i].members[j].ref)
			}
		}
	}
	// a node without a usable position (XML only: lat="NaN")
	if len(d.nodes) > 0 && t.OneIn(12, "nan-node") {
		i := t.Choose(len(d.nodes), "nan-which")
		if t.Bool("nan-lat") {
			d.nodes[i].lat = math.NaN()
		} else {
			d.nodes[i].lon = math.NaN()
		}
		r.nanNode = true
		r.res.Probe("node-with-NaN-coordinate")
	}
	ord := t.Choose(4, "order")
	if forceCanonical {
		ord = 0 // sensitivity experiments only: isolate schedule-dependent failures
	}
	switch ord {
	case 0, 1: // canonical
	case 2: // reversed types: relations, ways, nodes
		var o []elem
		for i := len(d.order) - 1; i >= 0; i-- {
			o = append(o, d.order[i])
		}
		d.order = o
		r.res.Probe("non-canonical-order")
	default:
		p := t.Perm(len(d.order), "shuffle")
		o := make([]elem, len(d.order))
		for i, j := range p {
			o[i] = d.order[j]
		}
		d.order = o
		r.res.Probe("non-canonical-order")
	}
	r.d = d
}

func (r *run) genKeep() {
	t := r.t
	switch t.Choose(5, "keep-kind") {
	case 0:
		r.ks = keepSpec{kind: "all"}
	case 1, 2:
		m := map[string][]string{}
		n := 1 + t.Choose(2, "keep-nkeys")
		for i := 0; i < n; i++ {
			k := r.tagKeys[t.Choose(3, "keep-key")]
			switch t.Choose(3, "keep-vals") {
			case 0:
				m[k] = nil // any value
			case 1:
				m[k] = []string{r.tagVals[t.Choose(2, "keep-val")]}
			default:
				m[k] = []string{r.tagVals[0], r.tagVals[1]}
			}
		}
		r.ks = keepSpec{kind: "tags", tags: m}
	default:
		x0 := float64(t.Choose(17, "bx0")) / 4
		y0 := float64(t.Choose(17, "by0")) / 4
		w := float64(t.Choose(9, "bw")) / 4
		h := float64(t.Choose(9, "bh")) / 4
		r.ks = keepSpec{kind: "bounds", minX: x0, minY: y0, maxX: x0 + w, maxY: y0 + h}
	}
}

func (r *run) keepFunc() gosm.KeepFunc {
	switch r.ks.kind {
	case "tags":
		return gosm.KeepTags(r.ks.tags)
	case "bounds":
		return gosm.KeepBounds(&geom.Bounds{Min: geom.Point{X: r.ks.minX, Y: r.ks.minY}, Max: geom.Point{X: r.ks.maxX, Y: r.ks.maxY}})
	}
	return gosm.KeepAll()
}

func (r *run) exec() {
	t := r.t
	r.pickAlphabet()
	r.genDoc()
	r.genKeep()
	r.keepTags = t.Bool("keep-tags")
	r.nprocs = 1 + t.Choose(8, "nprocs")
	r.strategy = sched.Strategies[t.Choose(len(sched.Strategies), "strategy")]
	if forceStrategy != "" {
		r.strategy = forceStrategy // sensitivity experiments only
	}
	r.class = t.Choose(8, "fault-class") // 0-2 none, 3 legal reader variations, 4 zero read, 5 eio, 6 seek, 7 cancel
	withBounds := t.Bool("bounds-elem")
	// one run in 25 reads the document as PBF through ExtractPBF: the pass
	// loop and worker pool are the same; osmpbf's own decoder goroutines are
	// not simulated (their output order is deterministic, the main task simply
	// waits for them while holding the token), so only fault-free and legal
	// reader classes are used — an injected error or cancellation would
	// surface at a moment those goroutines decide
	r.pbf = t.OneIn(25, "pbf-input") && !r.nanNode
	var xmlDoc []byte
	if r.pbf {
		if r.class >= 5 {
			r.class = r.class % 5
		}
		for i := range r.d.nodes {
			n := &r.d.nodes[i]
			n.lat, n.lon = pbfCoord(r.qlat[n.id]), pbfCoord(r.qlon[n.id])
		}
		xmlDoc = r.d.pbf(r.qlat, r.qlon, 1+t.Choose(3, "pbf-blocks"))
		r.res.Probe("pbf-input")
	} else {
		xmlDoc = r.d.xml(withBounds)
	}
	r.log.Eventf("doc %d elements, %s keepTags=%v workers=%d strategy=%s class=%d pbf=%v", len(r.d.order), r.ks, r.keepTags, r.nprocs, r.strategy, r.class, r.pbf)
	if r.trace {
		for _, l := range r.d.describe() {
			r.log.Note("    %s", l)
		}
	}
	want := closure(r.d, r.ks)
	nontrivial := r.nprocs >= 2 && (len(want.ways)+len(want.rels) > 0)

	f := &simFile{data: xmlDoc, fired: map[string]int{}}
	// the reader is handed over wherever a previous user left it: extract
	// must rewind it itself
	switch t.Choose(4, "reader-start") {
	case 1:
		f.pos = len(xmlDoc)
	case 2:
		f.pos = t.Choose(len(xmlDoc)+1, "reader-start-at")
	}
	faulty := false
	cancelAt := int64(0)
	switch r.class {
	case 3:
		f.chunk = []int{1, 7, 64, 1 + t.Choose(200, "chunk")}[t.Choose(4, "chunk-kind")]
		f.eofData = t.Bool("eof-with-data")
	case 4:
		f.zeroAt = 1 + t.Choose(40, "zero-at")
		f.chunk = 16
	case 5:
		faulty = true
		f.eioPass = 1 + t.Choose(3, "eio-pass")
		f.eioAt = t.Choose(len(xmlDoc), "eio-at")
	case 6:
		faulty = true
		f.seekFail = 1 + t.Choose(6, "seek-fail-call")
	case 7:
		faulty = true
		cancelAt = int64(1 + t.Choose(400, "cancel-at"))
	}

	ctx, cancel := context.WithCancel(context.Background())
	defer cancel()
	s := sched.New(t, r.log, r.strategy, 400000)
	cancelled := false
	if cancelAt > 0 {
		s.OnStep = func(step int64) {
			if step == cancelAt {
				cancel()
				cancelled = true
				r.res.Fault("cancellation")
				r.log.EventInts("cancel", step)
			}
		}
	}
	fine := t.OneIn(6, "fine-grained")
	if fine {
		r.res.Probe("fine-grained-run(statement-level yields)")
	}
	runtime := &rt{s: s, nprocs: r.nprocs, closed: map[chan osm.Object]bool{}, pending: map[*sync.RWMutex]int{}, fine: fine, hb: newHB(gosm.SimFillInfo)}
	gosm.Sim = runtime
	var data *gosm.Data
	var err error
	var aborted *sched.Abort
	p, v, st := core.Protect(func() {
		defer func() {
			if e := recover(); e != nil {
				if a, ok := e.(sched.Abort); ok {
					aborted = &a
					return
				}
				panic(e)
			}
		}()
		if r.pbf {
			data, err = gosm.ExtractPBF(ctx, f, r.keepFunc(), r.keepTags)
		} else {
			data, err = gosm.ExtractXML(ctx, f, r.keepFunc(), r.keepTags)
		}
	})
	if !p && aborted == nil {
		s.Drain()
	}
	s.WaitAll()
	gosm.Sim = nil
	r.res.Steps = s.Step
	r.res.SchedHash = s.SchedHash()
	for k, n := range f.fired {
		r.res.FaultN(k, int64(n))
	}
	if s.StallsFired > 0 {
		r.res.Fault("worker-stall")
		r.res.ProbeN("stalls", s.StallsFired)
	}
	if r.strategy == sched.Starve && r.nprocs >= 2 {
		r.res.Fault("worker-starved")
	}
	r.res.ProbeN("handoffs", s.Handoffs)
	if f.maxPass >= 3 {
		r.res.Probe("passes>=3")
	}
	if f.maxPass >= 6 {
		r.res.Probe("passes>=6")
	}
	if f.fired["reader-io-error"] > 0 || f.fired["seek-failure"] > 0 || cancelled {
		r.res.Probe("fault-fired-inside-extraction")
	}
	r.log.EventInts("extract-done", int64(f.maxPass), b2i(err == nil), int64(s.Step))

	if p {
		r.fail("panic", "ExtractXML", "ExtractXML panicked: %v %s", v, core.TrimStack(st, 5))
		return
	}
	if aborted != nil {
		if aborted.Why == "deadlock" {
			r.fail("deadlock", "", "extraction deadlocked after %d steps in pass %d (no task can run): %s", s.Step, f.maxPass, s.AbortDesc)
		} else {
			r.fail("no-termination", "", "extraction did not finish within %d scheduler steps (pass %d)", s.Step, f.maxPass)
		}
		return
	}
	if runtime.hb.accesses > 0 {
		r.res.ProbeN("shared-map-accesses-checked(happens-before)", runtime.hb.accesses)
	}
	if runtime.hb.off != "" {
		r.res.Probe("happens-before-tracking-off: " + runtime.hb.off)
	}
	if runtime.hb.race != "" {
		r.fail("data-race", runtime.hb.raceWhat, "%s (%d workers, strategy %s)", runtime.hb.race, r.nprocs, r.strategy)
		return
	}
	if s.Leaked > 0 {
		// error returns of extract do not join the workers; C18 says nothing
		// about that: counted only
		r.res.ProbeN("workers-left-behind-after-error-return", int64(s.Leaked))
	}
	faultFired := f.fired["reader-io-error"] > 0 || f.fired["seek-failure"] > 0 || cancelled
	if err != nil {
		if !faulty || !faultFired {
			r.fail("spurious-error", fmt.Sprintf("class=%d", r.class), "ExtractXML returned error %q although no fault was injected (reader class %d)", err, r.class)
			return
		}
		if data != nil {
			// C18 says nothing about what accompanies an error; a caller must
			// look at the error first: counted, not reported
			r.res.Probe("data-returned-together-with-error")
		}
		return // a legitimately failed run
	}
	if data == nil {
		r.fail("nil-data-nil-error", "", "ExtractXML returned (nil, nil)")
		return
	}
	// bounded liveness: at most 2|doc|+2 passes
	if f.maxPass > 2*len(r.d.order)+2 {
		r.fail("too-many-passes", "", "%d passes over a document of %d elements", f.maxPass, len(r.d.order))
		return
	}
	r.res.NonTrivial = nontrivial
	entry := "ExtractXML"
	if r.pbf {
		entry = "ExtractPBF"
	}
	r.compare(entry, data, r.d, want, r.keepTags)
	if r.res.Viol != nil {
		return
	}
	// state signature: document + keep + result
	h := core.NewHasher().Str(string(xmlDoc)).Str(r.ks.String())
	r.res.States = []uint64{uint64(h)}
	// Check() == nil  <=>  no kept object references an object missing from the document
	dang := dangling(r.d, want)
	if dang {
		r.res.Probe("document-with-dangling-reference")
	}
	// Check ranges over Go maps (an order the simulator does not own): for
	// correct code nil-ness is order-independent; evaluate it several times
	// (many more in a replay) so that an order-dependent answer is seen
	reps := 4
	if r.trace {
		reps = 64
	}
	for i := 0; i < reps; i++ {
		var cerr error
		if p, v, st := core.Protect(func() { cerr = data.Check() }); p {
			r.fail("panic", "Check", "Check panicked: %v %s", v, core.TrimStack(st, 4))
			return
		}
		if (cerr == nil) == dang {
			r.fail("check-wrong", "", "Check() returned %v but the model says dangling-reference=%v", cerr, dang)
			return
		}
	}
	r.filterOracle(data, want)
}

func b2i(b bool) int64 {
	if b {
		return 1
	}
	return 0
}

func tagsEq(got osm.Tags, want []tag) bool {
	if len(got) != len(want) {
		return false
	}
	for i := range got {
		if got[i].Key != want[i].k || got[i].Value != want[i].v {
			return false
		}
	}
	return true
}

func ids(s idSet) []int64 {
	out := make([]int64, 0, len(s))
	for k := range s {
		out = append(out, k)
	}
	sort.Slice(out, func(i, j int) bool { return out[i] < out[j] })
	return out
}

// compare checks key sets and stored values of data against the model set S
// over document d.
func (r *run) compare(what string, data *gosm.Data, d *doc, S result, withTags bool) {
	gotN, gotW, gotR := idSet{}, idSet{}, idSet{}
	for id := range data.Nodes {
		gotN[int64(id)] = true
	}
	for id := range data.Ways {
		gotW[int64(id)] = true
	}
	for id := range data.Relations {
		gotR[int64(id)] = true
	}
	// the model set restricted to what the document contains
	wantN, wantW, wantR := idSet{}, idSet{}, idSet{}
	for _, n := range d.nodes {
		if S.nodes[n.id] {
			wantN[n.id] = true
		}
	}
	for _, w := range d.ways {
		if S.ways[w.id] {
			wantW[w.id] = true
		}
	}
	for _, x := range d.rels {
		if S.rels[x.id] {
			wantR[x.id] = true
		}
	}
	diff := func(kind string, got, want idSet) bool {
		var missing, extra []int64
		for id := range want {
			if !got[id] {
				missing = append(missing, id)
			}
		}
		for id := range got {
			if !want[id] {
				extra = append(extra, id)
			}
		}
		if len(missing)+len(extra) == 0 {
			return false
		}
		sort.Slice(missing, func(i, j int) bool { return missing[i] < missing[j] })
		sort.Slice(extra, func(i, j int) bool { return extra[i] < extra[j] })
		cls := "objects-missing"
		if len(missing) == 0 {
			cls = "objects-extra"
		}
		r.fail(cls, what+","+r.ks.kind, "%s with %s (keepTags=%v, %d workers, strategy %s): %ss missing %v, unexpected %v; the least closed set has nodes %v ways %v relations %v, got nodes %v ways %v relations %v",
			what, r.ks, r.keepTags, r.nprocs, r.strategy, kind, missing, extra, ids(wantN), ids(wantW), ids(wantR), ids(gotN), ids(gotW), ids(gotR))
		return true
	}
	if diff("node", gotN, wantN) || diff("way", gotW, wantW) || diff("relation", gotR, wantR) {
		return
	}
	for _, n := range d.nodes {
		if !wantN[n.id] {
			continue
		}
		g := data.Nodes[osm.NodeID(n.id)]
		wt := n.tags
		if !withTags {
			wt = nil
		}
		feq := func(a, b float64) bool { return a == b || (a != a && b != b) }
		if g == nil || int64(g.ID) != n.id || !feq(g.Lat, n.lat) || !feq(g.Lon, n.lon) || !tagsEq(g.Tags, wt) {
			r.fail("stored-value-wrong", what+",node", "%s stored node %d as %+v, the document says %+v (tags kept: %v)", what, n.id, g, n, withTags)
			return
		}
	}
	for _, w := range d.ways {
		if !wantW[w.id] {
			continue
		}
		g := data.Ways[osm.WayID(w.id)]
		wt := w.tags
		if !withTags {
			wt = nil
		}
		ok := g != nil && int64(g.ID) == w.id && len(g.Nodes) == len(w.nodes) && tagsEq(g.Tags, wt)
		if ok {
			for i := range w.nodes {
				if int64(g.Nodes[i]) != w.nodes[i] {
					ok = false
				}
			}
		}
		if !ok {
			r.fail("stored-value-wrong", what+",way", "%s stored way %d as %+v, the document says %+v (tags kept: %v)", what, w.id, g, w, withTags)
			return
		}
	}
	for _, x := range d.rels {
		if !wantR[x.id] {
			continue
		}
		g := data.Relations[osm.RelationID(x.id)]
		wt := x.tags
		if !withTags {
			wt = nil
		}
		ok := g != nil && int64(g.ID) == x.id && len(g.Members) == len(x.members) && tagsEq(g.Tags, wt)
		if ok {
			for i := range x.members {
				if g.Members[i].Ref != x.members[i].ref || string(g.Members[i].Type) != x.members[i].typ {
					ok = false
				}
			}
		}
		if !ok {
			r.fail("stored-value-wrong", what+",relation", "%s stored relation %d as %+v, the document says %+v (tags kept: %v)", what, x.id, g, x, withTags)
			return
		}
	}
}

// filterOracle: Filter by tags / keep-all of the extraction result is
// idempotent, closed under references, a subset of its input and equal to the
// model's filter.
func (r *run) filterOracle(data *gosm.Data, S result) {
	t := r.t
	var fs keepSpec
	if t.Bool("filter-all") {
		fs = keepSpec{kind: "all"}
	} else {
		m := map[string][]string{}
		k := r.tagKeys[t.Choose(3, "filter-key")]
		if t.Bool("filter-any") {
			m[k] = nil
		} else {
			m[k] = []string{r.tagVals[t.Choose(2, "filter-val")]}
		}
		fs = keepSpec{kind: "tags", tags: m}
	}
	in := sub(r.d, S, r.keepTags)
	want := closure(in, fs)
	var kf gosm.KeepFunc
	if fs.kind == "all" {
		kf = gosm.KeepAll()
	} else {
		kf = gosm.KeepTags(fs.tags)
	}
	reps := 4
	if r.trace {
		reps = 64
	}
	r.log.Event("filter " + fs.String())
	for i := 0; i < reps && r.res.Viol == nil; i++ {
		var out, out2 *gosm.Data
		if p, v, st := core.Protect(func() { out = data.Filter(kf); out2 = out.Filter(kf) }); p {
			r.fail("panic", "Filter", "Filter(%s) panicked: %v %s", fs, v, core.TrimStack(st, 4))
			return
		}
		if out == nil || out2 == nil {
			r.fail("filter-wrong", "nil", "Filter(%s) returned nil", fs)
			return
		}
		save := r.ks
		r.ks = fs
		r.compare("Filter", out, in, want, true)
		if r.res.Viol == nil {
			// same fingerprint as the single application: with Go's map order
			// inside Filter not owned by the simulator, which of the two
			// trips first may vary between executions of one tape
			r.compare("Filter", out2, in, want, true)
		}
		r.ks = save
		// never more than it was given: pointer-level subset is implied by the id comparison above
	}
	if len(want.ways)+len(want.rels) > 0 {
		r.res.Probe("filter-kept-way-or-relation")
	}
}
