// Package routeh drives route.Network through seeded AddLink/ShortestRoute
// histories against a Dijkstra model (property C19). The simulator owns the
// history and the one nondeterminism source of the component: the order in
// which map-backed neighbour lists reach gonum's A* (hook route.SimOrder).
package routeh

import (
	"fmt"
	"math"
	"os"
	"path/filepath"
	"reflect"
	"runtime"
	"sort"
	"strings"

	"github.com/ctessum/geom"
	"github.com/ctessum/geom/route"
	"gonum.org/v1/gonum/graph"

	"verif/sim/core"
	"verif/sim/sched"
	"verif/sim/tape"
)

func init() {
	core.Register("C19", func() core.Engine { return &engine{} })
	_ = sched.Uniform
}

type engine struct{}

func (e *engine) Info() core.Info {
	return core.Info{
		Prop:  "C19",
		Level: "exploration",
		Rule:  "a case is one seeded history: <=40 AddLink calls on a small lattice (one run in ten: up to 160 links over up to 81 nodes, so that the node R-tree is multi-level) (end points identical, 1-ulp perturbed (must merge) or >=1 apart; one AddLink in 40, at most 3 per run: a link between two NEW end points 1 ulp apart, ten lattice extents away from everything else (two nodes, not a self-loop; must be accepted); interior vertices per run: mixed, mostly bent, all straight, or slight bends with length/chord just above 1; speeds from a small set or continuous in [0.1,100]; no self-loops or parallel links) interleaved with ShortestRoute queries (query points offset <=0.3 from a network node so that the nearest node is unique), both MinimizeOptions, neighbour order chosen by the tape; non-trivial = at least one answered query between distinct connected nodes for which the fewest-links route is NOT a minimum-cost route (so uniform-cost search would be wrong); distinct = distinct hash of the full operation/result log",
		Real:  []string{"route (NewNetwork, AddLink, newNode/addNode, ShortestRoute, graph adapter, heuristic)", "index/rtree NearestNeighbor/Insert underneath", "op.PointEquals/Length/Distance", "gonum graph/path.AStar"},
		Stubs: []string{"Go map iteration order in Network.From/Nodes (replaced by a tape-chosen permutation of the id-sorted slice through the verif hook)"},
		FaultKinds: []string{
			"none exists for this component (no I/O, clock or concurrency); adversarial events are tape-chosen neighbour orders and 1-ulp perturbed end points",
		},
		StateMeasure:  "distinct network topologies (hash of the sorted edge list with weights) at query time",
		SchedMeasure:  "distinct neighbour-order permutation sequences handed to A* (hash of all permutations drawn in a run)",
		TimeStatement: "no clock exists in route; simulated time = number of AddLink/ShortestRoute operations",
		Assumptions: []string{
			"networks as the property states: no self-loops, no parallel links, positive finite speeds; coordinates in [1,9] (lattices up to 90 long) times a per-axis scale between 1e-12 and 1e6, so that the relative merge tolerance is unambiguous and the squares and products the library forms stay inside the float64 range (at scales around 1e-158 or 1e150 the unchanged library already returns wrong routes: observed in an experiment, not claimed)",
			"overlapping ShortestRoute calls (allowed by the package documentation) are checked in interleaved pairs: each must return what it returns alone, and a map-typed field of the network that both touch, one of them writing, is reported as a data race (accesses announced by tools/hookfill; other kinds of shared variable are not tracked)",
			"the Dijkstra model and polyline-length computation of the oracle are correct; costs compared with 1e-9 relative tolerance; any minimum-cost chain is accepted",
		},
		QuickRuns: 95000, ThoroughRuns: 6000000, TokenScheduled: true, QuickWallS: 75, ThoroughWallS: 1200,
	}
}

type link struct {
	a, b   int // lattice node indices
	geom   geom.LineString
	length float64
	speed  float64
}

type run struct {
	twins                  int // links already added whose two fresh end points lie 1 ulp apart
	noPair                 bool
	force                  *[2]int
	pairAcc                map[uintptr]*pairAccess
	pairRace, pairRaceWhat string
	pairAccesses           int64
	bend                   float64
	intMode                int
	pairFine               bool // the running pair may be interleaved between any two statements of package route
	t                      *tape.Tape
	log                    *core.Log
	res                    *core.Result
	net                    *route.Network
	opt                    route.MinimizeOption
	g, gy                  int      // lattice columns, rows
	sx, sy                 float64  // coordinate scales: X = sx*(col+1), Y = sy*(row+1)
	pair                   *sched.S // non-nil while two queries run interleaved
	links                  []link
	pairs                  map[[2]int]int
	nodes                  map[int]geom.Point // lattice idx -> first location seen (what the network stores)
	perms                  core.Hasher
	permute                bool
	states                 map[uint64]struct{}
	nontrivial             bool
}

func (e *engine) Run(t *tape.Tape, trace bool) core.Result {
	res := core.Result{}
	r := &run{t: t, log: core.NewLog(trace), res: &res, pairs: map[[2]int]int{}, nodes: map[int]geom.Point{}, perms: core.NewHasher(), states: map[uint64]struct{}{}}
	route.SimOrder = r.orderHook
	// statement-level yield points (inserted by tools/hookfill at build time):
	// live only while a fine-grained pair of queries is running
	route.SimYield = func() {
		if r.pair != nil && r.pairFine {
			if os.Getenv("VERIF_SCHED_DEBUG") != "" {
				_, file, line, _ := runtime.Caller(2)
				fmt.Fprintf(os.Stderr, "  yield at %s:%d by t%d\n", filepath.Base(file), line, r.pair.Cur().ID())
			}
			r.pair.Yield("stmt", nil)
		}
	}
	// shared-map accesses (announced by tools/hookfill): while two queries
	// overlap nothing synchronises them, so a map both touch, one of them
	// writing, is a data race
	route.SimAccess = r.accessHook
	defer func() { route.SimAccess = nil }()
	defer func() { route.SimYield = nil }()
	defer func() { route.SimOrder = nil }()
	r.exec()
	res.LogHash = r.log.Hash()
	res.Events = r.log.Count()
	res.CaseHash = res.LogHash
	res.SchedHash = uint64(r.perms)
	res.Trace = r.log.Lines
	res.NonTrivial = r.nontrivial
	for s := range r.states {
		res.States = append(res.States, s)
	}
	sort.Slice(res.States, func(i, j int) bool { return res.States[i] < res.States[j] })
	return res
}

// order is the simulator-owned replacement for map iteration order.
func (r *run) order(nodes []graph.Node) {
	// (ID() is code under test and may contain an inserted yield point: call it
	// exactly once per node, not from the comparator, whose number of calls
	// depends on the incoming map order)
	type idn struct {
		id int64
		n  graph.Node
	}
	tmpIDs := make([]idn, len(nodes))
	for i, n := range nodes {
		tmpIDs[i] = idn{n.ID(), n}
	}
	sort.Slice(tmpIDs, func(i, j int) bool { return tmpIDs[i].id < tmpIDs[j].id })
	for i := range nodes {
		nodes[i] = tmpIDs[i].n
	}
	if !r.permute || len(nodes) < 2 {
		return
	}
	p := r.t.Perm(len(nodes), "neighbour-order")
	tmp := make([]graph.Node, len(nodes))
	for i, j := range p {
		tmp[i] = nodes[j]
		r.perms = r.perms.Int(j)
	}
	copy(nodes, tmp)
	r.res.Fault("neighbour-order-permuted")
}

type pairAccess struct {
	keep   interface{}
	reads  map[int]string // task -> site of its last read
	writes map[int]string
}

func (r *run) accessHook(p interface{}, write bool, site string) {
	if r.pair == nil || r.pairRace != "" || r.pair.Aborted != "" {
		return
	}
	v := reflect.ValueOf(p)
	var key uintptr
	switch v.Kind() {
	case reflect.Map:
		if v.IsNil() {
			return
		}
		key = v.Pointer()
	case reflect.Slice:
		// the elements of a slice: keyed by its first element
		if v.Len() == 0 {
			return
		}
		key = v.Pointer()
	case reflect.Ptr:
		if v.IsNil() {
			return
		}
		key = v.Pointer()
	default:
		return
	}
	tid := r.pair.Cur().ID()
	r.pairAccesses++
	a, ok := r.pairAcc[key]
	if !ok {
		a = &pairAccess{keep: p, reads: map[int]string{}, writes: map[int]string{}}
		r.pairAcc[key] = a
	}
	// the other task's conflicting access, if any (lowest task id first)
	other, otherSite, otherWrite := -1, "", false
	for u, st := range a.writes {
		if u != tid && (other == -1 || u < other) {
			other, otherSite, otherWrite = u, st, true
		}
	}
	if write && other == -1 {
		for u, st := range a.reads {
			if u != tid && (other == -1 || u < other) {
				other, otherSite, otherWrite = u, st, false
			}
		}
	}
	if other != -1 {
		k := func(w bool) string {
			if w {
				return "write"
			}
			return "read"
		}
		what := site
		if f := strings.Fields(site); len(f) >= 2 {
			what = f[1]
		}
		if i := strings.IndexByte(what, '.'); i >= 0 {
			what = what[i+1:]
		}
		if i := strings.IndexByte(what, '['); i >= 0 {
			what = what[:i] + "[]"
		}
		r.pairRaceWhat = fmt.Sprintf("%s,%s-%s", what, k(otherWrite), k(write))
		r.pairRace = fmt.Sprintf("%s at %s by query t%d and %s at %s by query t%d: two overlapping ShortestRoute calls touch the same map or slice and nothing orders them (in a real execution these accesses can run at the same time)", k(otherWrite), otherSite, other, k(write), site, tid)
		return
	}
	if write {
		a.writes[tid] = site
	} else {
		a.reads[tid] = site
	}
}

// orderHook is what route.SimOrder points to: it owns the map order and, while
// two queries run interleaved, is also the point at which the token may pass
// from one query to the other (after the neighbour list has been filled and
// before it is handed to A*).
func (r *run) orderHook(nodes []graph.Node) {
	r.order(nodes)
	if r.pair != nil {
		r.pair.Yield("from", nil)
	}
}

func (r *run) fail(class, detail, format string, a ...interface{}) {
	if r.res.Viol == nil {
		r.res.Viol = &core.Violation{Class: class, Detail: detail, Msg: fmt.Sprintf(format, a...)}
		r.log.Violation(class, r.res.Viol.Msg)
	}
}

func (r *run) latticePt(idx int) geom.Point {
	return geom.Point{X: r.sx * float64(1+idx%r.g), Y: r.sy * float64(1+idx/r.g)}
}

func polyLen(l geom.LineString) float64 {
	s := 0.0
	for i := 1; i < len(l); i++ {
		s += math.Hypot(l[i].X-l[i-1].X, l[i].Y-l[i-1].Y)
	}
	return s
}

func (r *run) exec() {
	t := r.t
	if t.Bool("cfg-time") {
		r.opt = route.Time
	} else {
		r.opt = route.Distance
	}
	r.g = 2 + t.Choose(4, "cfg-grid")
	r.gy = r.g
	big := t.OneIn(10, "cfg-big")
	if big {
		// more than 50 nodes: the node index (an R-tree with fan-out 25..50)
		// becomes multi-level, so end-point merging and query snapping go
		// through its split and nearest-neighbour paths
		switch t.Choose(3, "cfg-big-shape") {
		case 0:
			r.g = 8 + t.Choose(7, "cfg-grid-big")
			r.gy = r.g
		case 1: // a corridor: long straight roads, many collinear nodes
			r.g = 30 + t.Choose(60, "cfg-corridor-len")
			r.gy = 1 + t.Choose(3, "cfg-corridor-rows")
		default: // the same, along the other axis
			r.g = 1 + t.Choose(3, "cfg-corridor-rows")
			r.gy = 30 + t.Choose(60, "cfg-corridor-len")
		}
	}
	hub := big && t.OneIn(30, "cfg-hub")
	if hub {
		// a junction where hundreds of links meet (counts around 256 and 512)
		r.g = 24 + t.Choose(6, "cfg-hub-g")
		r.gy = 22
		r.res.Probe("hub-with->=255-links")
	}
	huge := t.OneIn(4000, "cfg-huge")
	if huge {
		// a network of ~2000 nodes: the node index (fan-out 25..50) gets three
		// levels, which a few hundred links never reach
		big = true
		r.g = 40 + t.Choose(10, "cfg-huge-g")
		r.gy = r.g
		r.res.Probe("huge-network(~2000 nodes)")
	}
	// coordinate scales, possibly very different per axis (x in millimetres of
	// a degree, y in metres …); coordinates never are 0
	scales := []float64{1, 1, 1, 1e-3, 1e3, 1e6, 0.1, 1e-10, 1e-12}
	r.sx, r.sy = scales[t.Choose(len(scales), "cfg-sx")], scales[t.Choose(len(scales), "cfg-sy")]
	r.permute = t.Choose(3, "cfg-permute") != 0
	speedMode := t.Choose(3, "cfg-speeds") // 0 all equal, 1 small set, 2 continuous
	// shapes of the links: 0 mixed (straight or up to two vertices anywhere),
	// 1 mostly bent, 2 all straight, 3 slightly bent
	r.intMode = t.Choose(4, "cfg-interior-mode")
	r.bend = []float64{0.001, 0.01, 0.1, 0.3, 0.6}[t.Choose(5, "cfg-bend")]
	r.log.Eventf("config minimize=%v grid=%dx%d scale=%gx%g permute=%v speedMode=%d", r.opt, r.g, r.gy, r.sx, r.sy, r.permute, speedMode)
	if p, v, st := core.Protect(func() { r.net = route.NewNetwork(r.opt) }); p {
		r.fail("panic", "NewNetwork", "NewNetwork panicked: %v %s", v, core.TrimStack(st, 3))
		return
	}
	if hub && !huge {
		n := r.g * r.gy
		h := t.Choose(n, "hub-node")
		k := []int{255, 256, 257, 258, 300, 511, 512, 513, 514}[t.Choose(9, "hub-degree")]
		for i, c := 0, 0; i < n && c < k && r.res.Viol == nil; i++ {
			if i == h {
				continue
			}
			r.force = &[2]int{h, i}
			r.addLink(speedMode)
			c++
		}
	}
	ops := 0
	maxLinks, maxOps := 40, 90
	if big {
		maxLinks, maxOps = 260, 400
	}
	if hub {
		// (the model's Dijkstra costs nodes x links per query)
		maxLinks, maxOps = len(r.links)+60, 90
	}
	if huge {
		maxLinks, maxOps = 6000, 6000
		// build first (queries cost O(nodes^2) in the model's Dijkstra), then a
		// handful of queries
		// (bounded: a minimised tape may make every attempt pick an existing pair)
		for tries := 0; len(r.links) < 4500 && r.res.Viol == nil && tries < 9000; tries++ {
			r.addLink(speedMode)
		}
		for i := 0; i < 30 && r.res.Viol == nil && len(r.links) > 0; i++ {
			r.query()
		}
		r.res.Steps = int64(len(r.links))
		return
	}
	for r.res.Viol == nil && ops < maxOps {
		ops++
		doQuery := len(r.links) > 0 && t.Choose(3, "op") == 0
		if !doQuery && len(r.links) >= maxLinks {
			doQuery = true
		}
		if doQuery {
			r.query()
		} else {
			r.addLink(speedMode)
		}
		mean := 30
		if big {
			mean = 200
		}
		if !t.More(mean, "more-ops") {
			break
		}
	}
	for i := 0; i < 3 && r.res.Viol == nil && len(r.links) > 0; i++ {
		r.query()
	}
	if !big && len(r.links) > 0 && len(r.links) <= 14 && t.OneIn(1500, "many-queries") {
		// tens of thousands of queries on one small network (anything that
		// counts or recycles per query: 16-bit stamps, pooled storage)
		r.res.Probe("run-with-66000-queries")
		r.noPair = true
		for i := 0; i < 66000 && r.res.Viol == nil; i++ {
			r.query()
		}
		r.noPair = false
	}
	r.res.Steps = int64(ops)
}

func (r *run) addLink(speedMode int) {
	t := r.t
	n := r.g * r.gy
	if r.twins < 3 && t.OneIn(40, "twin-link") {
		r.twinLink()
		return
	}
	var a, b int
	found := false
	if r.force != nil {
		a, b, found = r.force[0], r.force[1], true
		r.force = nil
		k := [2]int{a, b}
		if a > b {
			k = [2]int{b, a}
		}
		if _, dup := r.pairs[k]; dup || a == b {
			return
		}
	}
	for try := 0; try < 6 && !found; try++ {
		a = t.Choose(n, "link-a")
		switch t.Choose(3, "link-b-kind") {
		case 0: // lattice neighbour (builds grid-like networks with many alternatives)
			d := [][2]int{{1, 0}, {0, 1}, {1, 1}, {-1, 1}}[t.Choose(4, "link-dir")]
			x, y := a%r.g+d[0], a/r.g+d[1]
			if x < 0 || x >= r.g || y >= r.gy {
				continue
			}
			b = y*r.g + x
		default:
			b = t.Choose(n, "link-b")
		}
		if a == b {
			continue
		}
		k := [2]int{a, b}
		if a > b {
			k = [2]int{b, a}
		}
		if _, dup := r.pairs[k]; dup {
			continue
		}
		found = true
	}
	if !found {
		return
	}
	endpoint := func(idx int) geom.Point {
		p := r.latticePt(idx)
		if _, seen := r.nodes[idx]; seen && t.OneIn(3, "perturb") {
			// 1-ulp perturbation of an existing node's location: must merge
			if t.Bool("perturb-x") {
				p.X = math.Nextafter(p.X, math.Inf(1))
			} else {
				p.Y = math.Nextafter(p.Y, math.Inf(-1))
			}
			r.res.Probe("perturbed-endpoint")
		}
		return p
	}
	pa, pb := endpoint(a), endpoint(b)
	ls := geom.LineString{pa}
	nInt := t.Choose(4, "interior")
	if nInt == 3 {
		nInt = 0
	}
	switch r.intMode {
	case 1: // mostly bent links, a straight one now and then
		if nInt == 0 && !t.OneIn(6, "interior-straight") {
			nInt = 1 + t.Choose(2, "interior-n")
		}
	case 2: // every link straight
		nInt = 0
	case 3: // four links in five slightly bent
		if nInt == 0 && !t.OneIn(5, "interior-straight") {
			nInt = 1
		}
	}
	if t.OneIn(150, "long-link") {
		// a link with hundreds of vertices (a digitised road)
		nInt = 300 + t.Choose(900, "long-link-n")
		r.res.Probe("link-with->=300-vertices")
	}
	for i := 0; i < nInt; i++ {
		if r.intMode == 3 {
			// slight bends: a vertex on the chord, displaced sideways by a fraction
			// of the chord of the run's magnitude (0.1 % to 60 %: length/chord
			// ratios from just above 1 to 1.5, similar for all links of a network)
			u := (float64(i) + 0.2 + 0.6*t.Unit("iu")) / float64(nInt)
			off := r.bend * (0.5 + 0.5*t.Unit("ioffu"))
			if t.Bool("ioffs") {
				off = -off
			}
			dx, dy := pb.X-pa.X, pb.Y-pa.Y
			ls = append(ls, geom.Point{X: pa.X + u*dx - off*dy*r.sx/r.sy, Y: pa.Y + u*dy + off*dx*r.sy/r.sx})
			continue
		}
		ls = append(ls, geom.Point{X: r.sx * (1 + t.Unit("ix")*float64(r.g)), Y: r.sy * (1 + t.Unit("iy")*float64(r.gy))})
	}
	ls = append(ls, pb)
	var speed float64
	switch speedMode {
	case 0:
		speed = 1
	case 1:
		speed = []float64{1, 2, 5, 0.5}[t.Choose(4, "speed")]
	default:
		speed = 0.1 + t.Unit("speed")*99.9
	}
	r.log.Eventf("addlink %d-%d %v speed=%g", a, b, ls, speed)
	p, v, st := core.Protect(func() { r.net.AddLink(ls, speed) })
	if p {
		r.fail("panic", "AddLink", "AddLink(%v, %g) panicked: %v %s", ls, speed, v, core.TrimStack(st, 4))
		return
	}
	k := [2]int{a, b}
	if a > b {
		k = [2]int{b, a}
	}
	r.pairs[k] = len(r.links)
	r.links = append(r.links, link{a: a, b: b, geom: ls, length: polyLen(ls), speed: speed})
	if _, ok := r.nodes[a]; !ok {
		r.nodes[a] = pa
	}
	if _, ok := r.nodes[b]; !ok {
		r.nodes[b] = pb
	}
}

// twinLink adds a link whose two end points are both new to the network and
// lie 1 ulp apart (a ring road closing on itself up to rounding): neither is
// registered when the other is looked up, so they are two nodes and the link
// is legal ("any link geometries"; not a self-loop). It sits ten lattice
// extents outside the lattice, forms a component of its own and is never the
// nearest node of a query, so the Dijkstra model needs no knowledge of it; AddLink must simply
// accept it.
func (r *run) twinLink() {
	t := r.t
	// query points reach from -0.3 to 1.3 times the lattice's extent on either
	// axis; ten extents away on both axes no query point is nearer to the twin
	// than to a lattice node, whatever the two axis scales are
	pa := geom.Point{X: -r.sx * float64((10+3*r.twins)*(r.g+1)), Y: -r.sy * float64(10*(r.gy+1))}
	pb := pa
	if t.Bool("twin-x") {
		pb.X = math.Nextafter(pb.X, math.Inf(1))
	} else {
		pb.Y = math.Nextafter(pb.Y, math.Inf(-1))
	}
	ls := geom.LineString{pa}
	if t.Bool("twin-interior") {
		ls = append(ls, geom.Point{X: pa.X - r.sx*t.Unit("twin-ix"), Y: pa.Y - r.sy*t.Unit("twin-iy")})
	}
	ls = append(ls, pb)
	r.twins++
	r.res.Probe("link-between-two-new-end-points-1-ulp-apart")
	r.log.Eventf("addlink twin %v", ls)
	p, v, st := core.Protect(func() { r.net.AddLink(ls, 1) })
	if p {
		r.fail("panic", "AddLink", "AddLink(%v, 1) panicked on a link between two distinct new end points: %v %s", ls, v, core.TrimStack(st, 4))
	}
}

func (r *run) cost(l link) float64 {
	if r.opt == route.Time {
		return l.length / l.speed
	}
	return l.length
}

// dijkstra returns the minimum cost and the minimum number of links from s to
// every node (math.Inf if unreachable) under the given weight.
func (r *run) dijkstra(s int, w func(link) float64) map[int]float64 {
	dist := map[int]float64{s: 0}
	done := map[int]bool{}
	adj := map[int][]int{}
	for i, l := range r.links {
		adj[l.a] = append(adj[l.a], i)
		adj[l.b] = append(adj[l.b], i)
	}
	for {
		u, best := -1, math.Inf(1)
		for n, d := range dist {
			if !done[n] && (d < best || (d == best && (u == -1 || n < u))) {
				u, best = n, d
			}
		}
		if u == -1 {
			break
		}
		done[u] = true
		for _, li := range adj[u] {
			l := r.links[li]
			v := l.a
			if l.a == u {
				v = l.b
			}
			nd := best + w(l)
			if old, ok := dist[v]; !ok || nd < old {
				dist[v] = nd
			}
		}
	}
	return dist
}

func (r *run) topoHash() uint64 {
	type e struct {
		a, b int
		c    float64
	}
	es := make([]e, 0, len(r.links))
	for _, l := range r.links {
		a, b := l.a, l.b
		if a > b {
			a, b = b, a
		}
		es = append(es, e{a, b, r.cost(l)})
	}
	sort.Slice(es, func(i, j int) bool {
		if es[i].a != es[j].a {
			return es[i].a < es[j].a
		}
		return es[i].b < es[j].b
	})
	h := core.NewHasher().Int(r.g).Int(r.gy)
	for _, x := range es {
		h = h.Int(x.a).Int(x.b).U64(math.Float64bits(x.c))
	}
	return uint64(h)
}

func relEq(a, b float64) bool {
	if a == b {
		return true
	}
	return math.Abs(a-b) <= 1e-9*math.Max(math.Abs(a), math.Abs(b))
}

func sameLine(a, b geom.LineString) bool {
	if len(a) != len(b) {
		return false
	}
	for i := range a {
		if a[i] != b[i] {
			return false
		}
	}
	return true
}

func (r *run) query() {
	t := r.t
	ids := make([]int, 0, len(r.nodes))
	for id := range r.nodes {
		ids = append(ids, id)
	}
	sort.Ints(ids)
	pick := func(label string) (int, geom.Point) {
		id := ids[t.Choose(len(ids), label)]
		p := r.nodes[id]
		// offset <= 0.3 in each axis: every other node is >= 0.7 away in some axis
		q := geom.Point{X: p.X + (t.Unit(label+"-dx")-0.5)*0.6*r.sx, Y: p.Y + (t.Unit(label+"-dy")-0.5)*0.6*r.sy}
		if t.OneIn(3, label+"-exact") || r.sx != r.sy {
			// with very different axis scales an offset query point has no
			// numerically unique nearest node: query at the node itself
			q = p
		}
		return id, q
	}
	// free query points: anywhere in (and around) the network's extent, far
	// from any node; the expected node is the brute-force nearest one, and the
	// point is only used when that is unambiguous (clear margin to the second
	// nearest)
	free := func(label string) (int, geom.Point, bool) {
		q := geom.Point{X: r.sx * (t.Unit(label+"-fx")*1.6 - 0.3) * float64(r.g+1), Y: r.sy * (t.Unit(label+"-fy")*1.6 - 0.3) * float64(r.gy+1)}
		best, second, bi := math.Inf(1), math.Inf(1), -1
		for _, id := range ids {
			p := r.nodes[id]
			d := math.Hypot(p.X-q.X, p.Y-q.Y)
			if d < best {
				best, second, bi = d, best, id
			} else if d < second {
				second = d
			}
		}
		if bi < 0 || !(second-best > 1e-6*second) {
			return 0, q, false
		}
		return bi, q, true
	}
	s, from := pick("q-from")
	e, to := pick("q-to")
	if t.OneIn(4, "q-free") {
		if fs, fp, ok := free("q-from"); ok {
			s, from = fs, fp
		}
		if fe, fp, ok := free("q-to"); ok {
			e, to = fe, fp
		}
		r.res.Probe("free-query-points")
	}
	if len(ids) >= 2 && t.OneIn(12, "q-near-pair") {
		// two query points that agree to 3..10 digits and lie on either side of
		// the bisector between two nodes: "nearly the same point" is not the
		// same nearest node
		ai := t.Choose(len(ids), "np-a")
		a, b := ids[ai], ids[(ai+1+t.Choose(len(ids)-1, "np-b"))%len(ids)]
		if pa, pb := r.nodes[a], r.nodes[b]; a != b {
			d := []float64{1e-3, 1e-6, 1e-9, 1e-10, 3e-11}[t.Choose(5, "np-delta")]
			mx, my := (pa.X+pb.X)/2, (pa.Y+pb.Y)/2
			f := geom.Point{X: mx - d*(pb.X-pa.X), Y: my - d*(pb.Y-pa.Y)}
			g := geom.Point{X: mx + d*(pb.X-pa.X), Y: my + d*(pb.Y-pa.Y)}
			nearest := func(q geom.Point) (int, bool) {
				best, second, bi := math.Inf(1), math.Inf(1), -1
				for _, id := range ids {
					p := r.nodes[id]
					dd := math.Hypot(p.X-q.X, p.Y-q.Y)
					if dd < best {
						best, second, bi = dd, best, id
					} else if dd < second {
						second = dd
					}
				}
				// (float64 resolves relative differences down to ~1e-15)
				return bi, bi >= 0 && second-best > 1e-11*second
			}
			if fs, ok1 := nearest(f); ok1 {
				if ge, ok2 := nearest(g); ok2 {
					s, from, e, to = fs, f, ge, g
					r.res.Probe("near-equal-query-points-across-a-bisector")
				}
			}
		}
	}
	r.states[r.topoHash()] = struct{}{}
	if len(r.links) >= 3 && !r.noPair && t.OneIn(5, "interleaved-pair") {
		// two queries on the same network, interleaved at every neighbour-list
		// hand-over (ShortestRoute promises not to change the network, "so
		// multiple function calls can be run concurrently")
		s2, from2 := pick("q2-from")
		e2, to2 := pick("q2-to")
		r.log.Eventf("route-pair %d->%d || %d->%d", s, e, s2, e2)
		type out struct {
			rt       geom.MultiLineString
			dist, tm float64
			p        bool
			v        interface{}
			st       string
		}
		var o [2]out
		strat := []string{sched.Uniform, sched.Sticky, sched.RoundRobin}[t.Choose(3, "pair-strategy")]
		sc := sched.New(t, r.log, strat, 3000000)
		// (statement-level interleaving multiplies the number of steps by the
		// statements executed: only on small networks)
		r.pairFine = t.OneIn(3, "pair-fine-grained") && len(r.links) <= 80
		if r.pairFine {
			r.res.Probe("fine-grained-pair(statement-level yields)")
		}
		r.pair = sc
		r.pairAcc = map[uintptr]*pairAccess{}
		q := [2][2]geom.Point{{from, to}, {from2, to2}}
		for i := 0; i < 2; i++ {
			i := i
			// the two tasks are not interchangeable: spawn them one at a time
			// so that task ids do not depend on real arrival order
			sc.Spawn(1)
			go func() {
				sc.Enter()
				defer sc.Exit()
				o[i].p, o[i].v, o[i].st = core.Protect(func() {
					o[i].rt, o[i].dist, o[i].tm, _, _ = r.net.ShortestRoute(q[i][0], q[i][1])
				})
			}()
			sc.WaitArrived()
		}
		var ab *sched.Abort
		func() {
			defer func() {
				if e := recover(); e != nil {
					if a, ok := e.(sched.Abort); ok {
						ab = &a
						return
					}
					panic(e)
				}
			}()
			sc.Yield("join", sc.WorkersDone)
		}()
		sc.WaitAll()
		r.pair = nil
		r.res.Probe("interleaved-query-pair")
		r.res.ProbeN("pair-handoffs", sc.Handoffs)
		r.perms = r.perms.U64(sc.SchedHash())
		r.pairAcc = nil
		if r.pairAccesses > 0 {
			r.res.ProbeN("pair-shared-map-accesses-checked", r.pairAccesses)
			r.pairAccesses = 0
		}
		if r.pairRace != "" {
			r.fail("data-race", r.pairRaceWhat, "%s", r.pairRace)
			return
		}
		if ab != nil {
			r.fail("pair-did-not-finish", ab.Why, "two interleaved ShortestRoute calls did not finish (%s): %s", ab.Why, sc.AbortDesc)
			return
		}
		for i, qq := range [][2]int{{s, e}, {s2, e2}} {
			if o[i].p {
				r.fail("panic", "ShortestRoute,interleaved", "ShortestRoute(%v,%v) panicked while interleaved with another query: %v %s", q[i][0], q[i][1], o[i].v, core.TrimStack(o[i].st, 5))
				return
			}
			r.checkRoute(qq[0], qq[1], o[i].rt, o[i].dist, o[i].tm, "interleaved")
			if r.res.Viol != nil {
				return
			}
		}
		return
	}
	r.log.Eventf("route %d(%g,%g) -> %d(%g,%g)", s, from.X, from.Y, e, to.X, to.Y)
	var rt geom.MultiLineString
	var dist, tm float64
	p, v, st := core.Protect(func() { rt, dist, tm, _, _ = r.net.ShortestRoute(from, to) })
	if p {
		r.fail("panic", "ShortestRoute", "ShortestRoute(%v,%v) panicked: %v %s", from, to, v, core.TrimStack(st, 5))
		return
	}
	r.checkRoute(s, e, rt, dist, tm, "")
}

// checkRoute applies the C19 oracle to one answer.
func (r *run) checkRoute(s, e int, rt geom.MultiLineString, dist, tm float64, mode string) {
	opt := r.dijkstra(s, r.cost)
	best, reachable := opt[e]
	r.log.EventInts("route-result", int64(len(rt)), int64(math.Float64bits(dist)), int64(math.Float64bits(tm)))
	if len(r.nodes) > 50 {
		r.res.Probe("query-on-network-with->50-nodes(multi-level-node-index)")
	}
	if !reachable {
		r.res.Probe("query-disconnected")
		if len(rt) != 0 || dist != 0 || tm != 0 {
			r.fail("route-for-unreachable", "", "nodes %d and %d are not connected but ShortestRoute returned %d links (distance %g, time %g)", s, e, len(rt), dist, tm)
		}
		return
	}
	if s == e {
		r.res.Probe("query-same-node")
	}
	// the chain
	cur := s
	sumLen, sumTime := 0.0, 0.0
	for i, ls := range rt {
		var hit *link
		for k := range r.links {
			if sameLine(r.links[k].geom, ls) {
				hit = &r.links[k]
				break
			}
		}
		if hit == nil {
			r.fail("route-unknown-link", "", "route element %d (%v) is not a link of the network", i, ls)
			return
		}
		switch cur {
		case hit.a:
			cur = hit.b
		case hit.b:
			cur = hit.a
		default:
			r.fail("route-not-a-chain", "", "route element %d (link %d-%d) does not start at the node reached so far (%d); route from %d to %d", i, hit.a, hit.b, cur, s, e)
			return
		}
		sumLen += hit.length
		sumTime += hit.length / hit.speed
	}
	if cur != e {
		r.fail("route-wrong-end", "", "route from node %d ends at node %d, the node nearest the end point is %d (%d links returned; nodes are connected, optimum cost %g)", s, cur, e, len(rt), best)
		return
	}
	if !relEq(dist, sumLen) || !relEq(tm, sumTime) {
		r.fail("route-totals-wrong", "", "reported distance %g / time %g but the returned links sum to %g / %g", dist, tm, sumLen, sumTime)
		return
	}
	got := sumLen
	if r.opt == route.Time {
		got = sumTime
	}
	if got > best && !relEq(got, best) {
		mag := "excess<=1%"
		if got > best*1.01 {
			mag = "excess>1%"
		}
		r.fail("route-not-minimal", fmt.Sprintf("minimize=%v,%s", r.opt, mag), "route %d -> %d costs %g (%d links) but a chain of cost %g exists (minimize=%v, %d links in network)", s, e, got, len(rt), best, r.opt, len(r.links))
		return
	}
	if got < best && !relEq(got, best) {
		panic(fmt.Sprintf("routeh oracle inconsistent: valid chain of cost %g below Dijkstra optimum %g", got, best))
	}
	if s != e && len(r.links) <= 400 {
		// (evidence only, skipped on huge networks where it would dominate the cost)
		// non-trivial iff the fewest-links route is not a minimum-cost route:
		// lexicographic (hops, cost) shortest vs optimum
		hops := r.dijkstra(s, func(link) float64 { return 1 })
		// cheapest among fewest-hop paths: DP over hop layers
		if fewestHopsCost(r, s, e, int(hops[e])) > best*(1+1e-9) {
			r.nontrivial = true
			r.res.Probe("fewest-links-route-not-optimal")
		}
		if len(rt) >= 3 {
			r.res.Probe("route>=3-links")
		}
	}
}

// fewestHopsCost returns the minimum cost among paths s->e with exactly h links.
func fewestHopsCost(r *run, s, e, h int) float64 {
	cur := map[int]float64{s: 0}
	for i := 0; i < h; i++ {
		next := map[int]float64{}
		for u, c := range cur {
			for _, l := range r.links {
				var v int
				if l.a == u {
					v = l.b
				} else if l.b == u {
					v = l.a
				} else {
					continue
				}
				nc := c + r.cost(l)
				if old, ok := next[v]; !ok || nc < old {
					next[v] = nc
				}
			}
		}
		cur = next
	}
	if c, ok := cur[e]; ok {
		return c
	}
	return math.Inf(1)
}
