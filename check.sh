#!/bin/sh
# usage: check.sh <property id> [quick|thorough]
# Rebuilds the simulator against /repo's current working tree with the verif
# hooks enabled, then runs the supervisor for one property.
# exit 0 = held, 1 = VIOLATION line(s) printed, 2 = build / simulator trouble.
prop="$1"
tier="${2:-${VERIF_TIER:-quick}}"
export GOFLAGS=-mod=mod GOPROXY=off GOSUMDB=off GOTOOLCHAIN=local
# location-independent: a snapshot of /verif (vp run) checks from its own copy
here="$(cd "$(dirname "$0")" && pwd)"
cd "$here" || exit 2
export VERIF_ROOT="$here"
mkdir -p bin evidence
if ! go build -tags verif -o "bin/geomsim-$prop" ./cmd/geomsim 2>"bin/build-$prop.log"; then
	echo "check.sh: build against /repo failed (not a property violation):" >&2
	head -40 "bin/build-$prop.log" >&2
	exit 2
fi
"bin/geomsim-$prop" run -prop "$prop" -tier "$tier"
code=$?
# keep a copy of thorough-tier evidence next to the file the harness reads
if [ "$tier" = thorough ] && [ -f "evidence/$prop.json" ]; then
	mkdir -p evidence/thorough && cp "evidence/$prop.json" "evidence/thorough/$prop.json"
fi
exit $code
