#!/bin/sh
# usage: check.sh <property id> [quick|thorough]
# Rebuilds the simulator against /repo's current working tree with the verif
# hooks enabled, then runs the supervisor for one property.
# exit 0 = held, 1 = VIOLATION line(s) printed, 2 = build / simulator trouble.
prop="$1"
tier="${2:-${VERIF_TIER:-quick}}"
export GOFLAGS=-mod=mod GOPROXY=off GOSUMDB=off GOTOOLCHAIN=local
# location-independent: a snapshot of /verif (vp run) checks from its own copy
here="$(cd "$(dirname "$0")" && pwd)"
cd "$here" || exit 2
export VERIF_ROOT="$here"
mkdir -p bin evidence
modflag=""
scratch=""
if [ "$prop" = C18 ] || [ "$prop" = C19 ]; then
	# C18's scheduler can only switch goroutines at announced lock/channel
	# operations: build against a scratch copy of /repo in which every
	# Lock/RLock call of encoding/osm that carries no announcement gets one
	# (tools/hookfill; inserts nothing when the hooks are complete)
	# (C19: statement-level yield points in package route for the interleaved
	# query pairs)
	scratch=$(mktemp -d /tmp/verif-$prop.XXXXXX) || exit 2
	trap 'rm -rf "$scratch"' EXIT
	if ! go build -o bin/hookfill ./tools/hookfill 2>"bin/build-$prop.log" || ! bin/hookfill /repo "$scratch/repo" >"bin/hookfill.log" 2>&1; then
		echo "check.sh: hookfill failed (not a property violation):" >&2
		cat "bin/build-$prop.log" bin/hookfill.log 2>/dev/null | head -20 >&2
		exit 2
	fi
	sed "s#=> /repo#=> $scratch/repo#" go.mod > "$scratch/go.mod"
	cp go.sum "$scratch/go.sum"
	modflag="-modfile=$scratch/go.mod"
	grep -v "^hookfill: 0 " bin/hookfill.log
fi
if ! go build $modflag -tags verif -o "bin/geomsim-$prop" ./cmd/geomsim 2>"bin/build-$prop.log"; then
	echo "check.sh: build against /repo failed (not a property violation):" >&2
	head -40 "bin/build-$prop.log" >&2
	exit 2
fi
[ -n "$scratch" ] && rm -rf "$scratch"
"bin/geomsim-$prop" run -prop "$prop" -tier "$tier"
code=$?
# keep a copy of thorough-tier evidence next to the file the harness reads
if [ "$tier" = thorough ] && [ -f "evidence/$prop.json" ]; then
	mkdir -p evidence/thorough && cp "evidence/$prop.json" "evidence/thorough/$prop.json"
fi
exit $code
